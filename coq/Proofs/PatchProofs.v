(* C02 proofs: what a guard captured is always the pristine entry; every jump in the image belongs to an applied patch;
   Cancel / Reset restore the pristine bytes; an operation touches only its own target and placeholder. *)
From Coq Require Import List ZArith Bool Arith Lia.
From Goom Require Import Model.Patch.
Import ListNotations.
Open Scope Z_scope.

Lemma upd_same {A} (f : nat -> A) k v : upd f k v k = v.
Proof. unfold upd. now rewrite Nat.eqb_refl. Qed.
Lemma upd_other {A} (f : nat -> A) k v x : x <> k -> upd f k v x = f x.
Proof. unfold upd. intros H. apply Nat.eqb_neq in H. now rewrite H. Qed.

Lemma nth_error_set_nth {A} (l : list A) n k x :
  nth_error (set_nth n l x) k =
  if Nat.eqb k n then (if Nat.ltb n (length l) then Some x else None) else nth_error l k.
Proof.
  revert n k; induction l as [|y l IH]; intros n k.
  - assert (E : set_nth n (@nil A) x = []) by (destruct n; reflexivity). rewrite E.
    cbn [length]. assert (E2 : (n <? 0)%nat = false) by (apply Nat.ltb_ge; lia). rewrite E2.
    destruct (Nat.eqb k n); destruct k; reflexivity.
  - destruct n as [|n]; destruct k as [|k]; cbn [set_nth nth_error length]; try reflexivity.
    rewrite IH. cbn [Nat.eqb]. destruct (Nat.eqb k n); [|reflexivity].
    change (S n <? S (length l))%nat with (n <? length l)%nat. reflexivity.
Qed.

Record PInv (s : pstate) : Prop := {
  pi_captured : forall pid p, nth_error (precs s) pid = Some p -> p_captured p = Pristine;
  pi_image : forall t cb, entry s t = Jump cb ->
             exists pid p, nth_error (precs s) pid = Some p /\ p_target p = t /\ p_cb p = cb /\ p_applied p = true
}.

Lemma unpatch_entry_spec s pid t :
  PInv s ->
  unpatch_entry s pid t = entry s t \/ unpatch_entry s pid t = Pristine.
Proof.
  intros [Ic _]. unfold unpatch_entry. destruct (nth_error (precs s) pid) as [p|] eqn:E; [|now left].
  destruct (p_applied p); [|now left].
  destruct (Nat.eq_dec t (p_target p)) as [->|Hne].
  - right. rewrite upd_same. exact (Ic _ _ E).
  - left. now apply upd_other.
Qed.

(* unpatching an applied patch restores the pristine entry of its target and touches no other target *)
Theorem unpatch_restores s pid p :
  PInv s -> nth_error (precs s) pid = Some p -> p_applied p = true ->
  unpatch_entry s pid (p_target p) = Pristine /\
  (forall t, t <> p_target p -> unpatch_entry s pid t = entry s t).
Proof.
  intros [Ic _] Hp Ha. unfold unpatch_entry. rewrite Hp, Ha. split.
  - rewrite upd_same. exact (Ic _ _ Hp).
  - intros t Ht. now apply upd_other.
Qed.

Lemma image_after_unpatch s pid :
  PInv s -> forall t cb, unpatch_entry s pid t = Jump cb ->
  exists pid' p, nth_error (precs s) pid' = Some p /\ p_target p = t /\ p_cb p = cb /\ p_applied p = true.
Proof.
  intros HI t cb H. destruct (unpatch_entry_spec s pid t HI) as [E|E]; rewrite E in H; [|discriminate].
  destruct HI as [_ Ii]. exact (Ii _ _ H).
Qed.

Lemma do_patch_inv s t cb ph : PInv s -> PInv (fst (do_patch s t cb ph)).
Proof.
  intros HI. pose proof HI as [Ic Ii]. unfold do_patch.
  set (e1 := match table s t with Some old => unpatch_entry s old | None => entry s end).
  assert (He1 : forall t' cb', e1 t' = Jump cb' ->
          exists pid' p, nth_error (precs s) pid' = Some p /\ p_target p = t' /\ p_cb p = cb' /\ p_applied p = true).
  { intros t' cb' H. unfold e1 in H. destruct (table s t) as [old|]; [exact (image_after_unpatch s old HI _ _ H) | exact (Ii _ _ H)]. }
  destruct (e1 t) as [|cb0] eqn:Et; cbn [fst].
  - (* accepted *)
    constructor; cbn [precs entry].
    + intros pid p Hp. destruct (Nat.lt_ge_cases pid (length (precs s))) as [Hlt|Hge].
      * rewrite nth_error_app1 in Hp by exact Hlt. exact (Ic _ _ Hp).
      * rewrite nth_error_app2 in Hp by exact Hge.
        destruct (pid - length (precs s))%nat as [|k]; cbn in Hp; [|destruct k; discriminate].
        inversion Hp; subst. reflexivity.
    + intros t' cb' H. destruct (Nat.eq_dec t' t) as [->|Hne].
      * rewrite upd_same in H. inversion H; subst.
        exists (length (precs s)). eexists. split; [rewrite nth_error_app2 by lia; rewrite Nat.sub_diag; reflexivity|].
        repeat split.
      * rewrite upd_other in H by exact Hne. destruct (He1 _ _ H) as (pid' & p & Hp & H1 & H2 & H3).
        exists pid', p. split; [|repeat split; assumption].
        rewrite nth_error_app1; [exact Hp|]. apply nth_error_Some. congruence.
  - (* refused: the entry still holds somebody's jump *)
    constructor; cbn [precs entry].
    + intros pid p Hp. destruct (Nat.lt_ge_cases pid (length (precs s))) as [Hlt|Hge].
      * rewrite nth_error_app1 in Hp by exact Hlt. exact (Ic _ _ Hp).
      * rewrite nth_error_app2 in Hp by exact Hge.
        destruct (pid - length (precs s))%nat as [|k]; cbn in Hp; [|destruct k; discriminate].
        inversion Hp; subst. reflexivity.
    + intros t' cb' H. destruct (He1 _ _ H) as (pid' & p & Hp & H1 & H2 & H3).
      exists pid', p. split; [|repeat split; assumption].
      rewrite nth_error_app1; [exact Hp|]. apply nth_error_Some. congruence.
Qed.

Lemma with_mkr_inv s id m : PInv s -> PInv (with_mkr s id m).
Proof. intros [Ic Ii]. constructor; cbn [with_mkr precs entry]; assumption. Qed.

Lemma mk_patch_inv s id m cb hw : PInv s -> PInv (mk_patch s id m cb hw).
Proof.
  intros HI. unfold mk_patch. pose proof (do_patch_inv s (r_target m) cb (r_origin m) HI) as H.
  destruct (do_patch s (r_target m) cb (r_origin m)) as [s1 [pid|]]; cbn [fst] in H; [apply with_mkr_inv|]; exact H.
Qed.

Lemma p_cancel_inv s id : PInv s -> PInv (p_cancel s id).
Proof.
  intros HI. unfold p_cancel. destruct (nth_error (mkrs s) id) as [m|]; [|exact HI].
  pose proof HI as [Ic Ii]. constructor; cbn [precs entry]; [exact Ic|].
  intros t cb H. destruct (r_guard m) as [pid|]; [exact (image_after_unpatch s pid HI _ _ H) | exact (Ii _ _ H)].
Qed.

Lemma p_lookup_inv s b t : PInv s -> PInv (p_lookup s b t).
Proof.
  intros [Ic Ii]. unfold p_lookup.
  destruct (pcache s b t) as [id|]; [destruct (nth_error (mkrs s) id) as [m|]; [destruct (r_canceled m)|]|];
    constructor; cbn [precs entry]; assumption.
Qed.

Lemma p_reset_inv n s b : PInv s -> PInv (p_reset n s b).
Proof.
  unfold p_reset. generalize (seq 0 n). intros l. revert s. induction l as [|t l IH]; intros s HI; [exact HI|].
  cbn [fold_left]. apply IH. destruct (pcache s b t); [apply p_cancel_inv|]; exact HI.
Qed.

Lemma pstep_inv n s o : PInv s -> PInv (pstep n s o).
Proof.
  intros HI. destruct o as [b t|h k|h|h ph|h|b|h]; cbn [pstep].
  - apply p_lookup_inv; exact HI.
  - destruct (nth_error (phandles s) h) as [id|]; [|exact HI].
    destruct (nth_error (mkrs s) id) as [m|]; [apply mk_patch_inv|]; exact HI.
  - destruct (nth_error (phandles s) h) as [id|]; [|exact HI].
    destruct (nth_error (mkrs s) id) as [m|]; [|exact HI].
    destruct (r_has_when m); [exact HI | apply mk_patch_inv; exact HI].
  - destruct (nth_error (phandles s) h) as [id|]; [|exact HI].
    destruct (nth_error (mkrs s) id) as [m|]; [apply with_mkr_inv|]; exact HI.
  - destruct (nth_error (phandles s) h) as [id|]; [apply p_cancel_inv|]; exact HI.
  - apply p_reset_inv; exact HI.
  - exact HI.
Qed.

(* MAIN: every finite history over any number of builders, targets, handles and placeholders *)
Theorem image_invariant n ops : PInv (prun n pinit ops).
Proof.
  assert (G : forall ops s, PInv s -> PInv (prun n s ops)).
  { induction ops0 as [|o r IH]; intros s HI; [exact HI|]. cbn [prun fold_left]. apply IH. apply pstep_inv. exact HI. }
  apply G. constructor; cbn.
  - intros pid p H. destruct pid; discriminate.
  - intros t cb H. discriminate.
Qed.

(* Cancel restores the exact pristine entry of the mocker's target and touches nothing else *)
Theorem cancel_restores s id m pid p :
  PInv s -> nth_error (mkrs s) id = Some m -> r_guard m = Some pid ->
  nth_error (precs s) pid = Some p -> p_applied p = true ->
  entry (p_cancel s id) (p_target p) = Pristine /\
  (forall t, t <> p_target p -> entry (p_cancel s id) t = entry s t) /\
  phs (p_cancel s id) = phs s.
Proof.
  intros HI Hm Hg Hp Ha. unfold p_cancel. rewrite Hm, Hg. cbn [entry phs].
  destruct (unpatch_restores s pid p HI Hp Ha) as [H1 H2]. repeat split; assumption.
Qed.

(* a Cancel of a mocker that never patched anything changes no byte *)
Theorem cancel_without_guard s id m :
  nth_error (mkrs s) id = Some m -> r_guard m = None ->
  entry (p_cancel s id) = entry s /\ phs (p_cancel s id) = phs s.
Proof. intros Hm Hg. unfold p_cancel. rewrite Hm, Hg. split; reflexivity. Qed.

(* an instruction touches only its own target's entry and its own placeholder *)
Theorem patch_frame s t cb ph t' :
  PInv s -> t' <> t ->
  entry (fst (do_patch s t cb ph)) t' = entry s t' \/ entry (fst (do_patch s t cb ph)) t' = Pristine.
Proof.
  intros HI Hne. unfold do_patch.
  set (e1 := match table s t with Some old => unpatch_entry s old | None => entry s end).
  assert (He : e1 t' = entry s t' \/ e1 t' = Pristine).
  { unfold e1. destruct (table s t) as [old|]; [apply unpatch_entry_spec; exact HI | now left]. }
  destruct (e1 t); cbn [fst entry]; [rewrite upd_other by exact Hne|]; exact He.
Qed.

Theorem patch_frame_ph s t cb ph q :
  (forall q0, ph = Some q0 -> q <> q0) -> phs (fst (do_patch s t cb ph)) q = phs s q.
Proof.
  intros Hq. unfold do_patch.
  destruct (match table s t with Some old => unpatch_entry s old | None => entry s end t); cbn [fst phs]; [|reflexivity].
  destruct ph as [q0|]; [|reflexivity]. apply upd_other. exact (Hq q0 eq_refl).
Qed.

(* a refused patch (entry already holds a jump) writes nothing *)
Theorem refused_patch_is_inert s t cb ph :
  snd (do_patch s t cb ph) = None ->
  table s t = None ->
  entry (fst (do_patch s t cb ph)) = entry s /\ phs (fst (do_patch s t cb ph)) = phs s.
Proof.
  unfold do_patch. intros Hr Ht. rewrite Ht in *.
  destruct (entry s t); cbn [fst snd entry phs] in *; [discriminate|]. split; reflexivity.
Qed.
