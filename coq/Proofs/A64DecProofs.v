From Goom Require Import Base.MachineInt Model.A64Dec.
From Coq Require Import List ZArith Bool Lia String.
Import ListNotations.
Open Scope Z_scope.

(* a word admitted by two formats agrees with both on every commonly fixed bit *)
Lemma common_bits_agree x mf vf mg vg :
  Z.land x mf = vf -> Z.land x mg = vg -> Z.land (Z.land mf mg) (Z.lxor vf vg) = 0.
Proof.
  intros Hf Hg. apply Z.bits_inj'. intros n Hn.
  rewrite Z.bits_0, !Z.land_spec, Z.lxor_spec, <- Hf, <- Hg, !Z.land_spec.
  destruct (Z.testbit x n), (Z.testbit mf n), (Z.testbit mg n); reflexivity.
Qed.

Lemma disjoint_sound f g x : disjoint f g = true -> matches f x = true -> matches g x = false.
Proof.
  unfold disjoint, matches. intros Hd Hf. apply negb_true_iff in Hd. apply Z.eqb_neq in Hd. apply Z.eqb_eq in Hf.
  destruct (Z.land x (f_mask g) =? f_value g) eqn:Eg; [|reflexivity]. apply Z.eqb_eq in Eg.
  exfalso. apply Hd. exact (common_bits_agree x _ _ _ _ Hf Eg).
Qed.

Lemma disjoint_sym f g : disjoint f g = disjoint g f.
Proof. unfold disjoint. rewrite (Z.land_comm (f_mask f)), (Z.lxor_comm (f_value f)). reflexivity. Qed.

(* first match over the table is the class's own format when every earlier format is disjoint from it *)
Lemma first_pattern_skip pre f post i x :
  forallb (fun g => disjoint g f) pre = true -> matches f x = true ->
  first_pattern (pre ++ f :: post) i x = Some (i + List.length pre, f)%nat.
Proof.
  revert i. induction pre as [|g pre IH]; intros i Hd Hm; simpl.
  - rewrite Hm. f_equal. f_equal. lia.
  - simpl in Hd. apply andb_true_iff in Hd. destruct Hd as [Hg Hd].
    rewrite disjoint_sym in Hg. rewrite (disjoint_sound f g x Hg Hm). rewrite (IH (S i) Hd Hm). f_equal. f_equal. lia.
Qed.

Theorem class_first_match tbl k f x :
  nth_error tbl k = Some f -> forallb (fun g => disjoint g f) (firstn k tbl) = true -> matches f x = true ->
  first_pattern tbl 0 x = Some (k, f).
Proof.
  intros Hk Hd Hm.
  assert (Hsplit : tbl = firstn k tbl ++ f :: skipn (S k) tbl).
  { clear Hd Hm. revert k Hk. induction tbl as [|a t IH]; intros [|k] Hk; simpl in *; try discriminate.
    - inversion Hk. reflexivity.
    - f_equal. apply IH. exact Hk. }
  rewrite Hsplit at 1. rewrite (first_pattern_skip _ f _ 0%nat x Hd Hm). f_equal. f_equal.
  rewrite firstn_length. apply Nat.min_l. apply Nat.lt_le_incl. apply nth_error_Some. congruence.
Qed.

(* sign extension facts: scaling by 4 commutes with sign extension (what `<< 2` then `<< k >> k` computes) *)
Lemma sext_range n x : 1 <= n -> - 2 ^ (n - 1) <= sext n x < 2 ^ (n - 1).
Proof.
  intros Hn. unfold sext. assert (H2 : 2 ^ n = 2 * 2 ^ (n - 1)) by (replace n with (Z.succ (n - 1)) at 1 by lia; rewrite Z.pow_succ_r; lia).
  pose proof (Z.mod_pos_bound x (2 ^ n) ltac:(apply Z.pow_pos_nonneg; lia)).
  pose proof (Z.pow_pos_nonneg 2 (n - 1) ltac:(lia) ltac:(lia)).
  destruct (x mod 2 ^ n <? 2 ^ (n - 1)) eqn:E; lia.
Qed.

Lemma sext_scale4 n v : 1 <= n -> 0 <= v < 2 ^ n -> sext (n + 2) (v * 4) = 4 * sext n v.
Proof.
  intros Hn Hv. unfold sext.
  assert (Hp : 2 ^ (n + 2) = 4 * 2 ^ n) by (rewrite Z.pow_add_r by lia; change (2 ^ 2) with 4; lia).
  assert (Hq : 2 ^ (n + 2 - 1) = 4 * 2 ^ (n - 1)).
  { replace (n + 2 - 1) with ((n - 1) + 2) by lia. rewrite Z.pow_add_r by lia. change (2 ^ 2) with 4. lia. }
  rewrite (Z.mod_small (v * 4)) by lia. rewrite (Z.mod_small v) by lia. rewrite Hp, Hq.
  destruct (v <? 2 ^ (n - 1)) eqn:E1; destruct (v * 4 <? 4 * 2 ^ (n - 1)) eqn:E2; lia.
Qed.

Lemma field_range x lo n : 0 <= n -> 0 <= field x lo n < 2 ^ n.
Proof. intros Hn. unfold field. apply Z.mod_pos_bound. apply Z.pow_pos_nonneg; lia. Qed.

(* B / BL: displacement = 4 * signed imm26; B.cond, CBZ/CBNZ: 4 * signed imm19; TBZ/TBNZ: 4 * signed imm14 *)
Theorem label_imm26_spec x : label_imm26 x = 4 * sext 26 (field x 0 26).
Proof. unfold label_imm26. apply (sext_scale4 26); [lia|apply field_range; lia]. Qed.
Theorem label_imm19_spec x : label_imm19 x = 4 * sext 19 (field x 5 19).
Proof. unfold label_imm19. apply (sext_scale4 19); [lia|apply field_range; lia]. Qed.
Theorem label_imm14_spec x : label_imm14 x = 4 * sext 14 (field x 5 14).
Proof. unfold label_imm14. apply (sext_scale4 14); [lia|apply field_range; lia]. Qed.

(* every label is a multiple of 4 within +-128 MiB / +-1 MiB / +-32 KiB *)
Corollary label_imm26_bounds x : - 2 ^ 27 <= label_imm26 x < 2 ^ 27 /\ label_imm26 x mod 4 = 0.
Proof.
  rewrite label_imm26_spec. pose proof (sext_range 26 (field x 0 26) ltac:(lia)) as H. change (2 ^ (26 - 1)) with (2 ^ 25) in H.
  change (2 ^ 27) with (4 * 2 ^ 25). split; [lia|]. rewrite Z.mul_comm. apply Z.mod_mul. lia.
Qed.

(* a class = one format of the table whose earlier formats are all bit-disjoint from it and whose arguments always decode *)
Definition class_ok (tbl : list fmt) (k : nat) : bool :=
  match nth_error tbl k with
  | Some f => forallb (fun g => disjoint g f) (firstn k tbl) && simple_format f
  | None => false
  end.

Theorem class_decodes tbl k f x :
  class_ok tbl k = true -> nth_error tbl k = Some f -> matches f x = true ->
  decode_branch tbl x = Some (f_op f, match filter (fun a => match label_of a x with Some _ => true | None => false end) (f_args f) with
                                      | a :: _ => label_of a x | [] => None end).
Proof.
  unfold class_ok. intros Hc Hk Hm. rewrite Hk in Hc. apply andb_true_iff in Hc. destruct Hc as [Hd Hs].
  unfold decode_branch. rewrite (class_first_match tbl k f x Hk Hd Hm), Hs. reflexivity.
Qed.
