(* C20 proofs: for every number of threads, every request size and EVERY schedule, the regions returned by the
   repaired holder program are pairwise disjoint and inside the reserve. *)
From Goom Require Import Base.MachineInt Model.StubSpace.
Open Scope Z_scope.

Definition two64 : Z := 2 ^ 64.

(* threads that have not yet executed their atomic add *)
Definition before_add (t : thr) : bool :=
  match res t, code t with
  | None, ILoad _ :: _ => true
  | None, IFailIfGt (EAdd _ _) _ :: _ => true
  | None, IFetchAdd _ _ :: _ => true
  | _, _ => false
  end.

Definition pending1 (t : thr) : Z := if before_add t then len t else 0.
Fixpoint pending (ts : list thr) : Z :=
  match ts with [] => 0 | t :: r => pending1 t + pending r end.

Lemma pending_app a b : pending (a ++ b) = pending a + pending b.
Proof. induction a as [|x a IH]; cbn [app pending]; lia. Qed.

Lemma pending_cons t b : pending (t :: b) = pending1 t + pending b.
Proof. reflexivity. Qed.

(* ordered-pairs disjointness of the ghost log *)
Definition lreg (e : nat * Z * Z) : Z * Z := (snd (fst e), snd e).
Fixpoint pdisj (l : log) : Prop :=
  match l with [] => True | e :: k => Forall (fun e' => disj (lreg e) (lreg e')) k /\ pdisj k end.

Definition tails := [ holder_prog;
                      skipn 1 holder_prog; skipn 2 holder_prog; skipn 3 holder_prog; skipn 4 holder_prog ].

(* per-thread invariant *)
Definition tinv (max off : Z) (lg : log) (t : thr) : Prop :=
  0 <= len t /\
  match res t with
  | Some None => True
  | Some (Some a) => In (tid t, a, len t) lg /\ a + len t <= max
  | None =>
      (code t = holder_prog /\ ~ In (tid t) (map (fun e => fst (fst e)) lg)) \/
      (code t = skipn 1 holder_prog /\ ~ In (tid t) (map (fun e => fst (fst e)) lg) /\ 0 <= regs t 0%nat <= off) \/
      (code t = skipn 2 holder_prog /\ ~ In (tid t) (map (fun e => fst (fst e)) lg)) \/
      (code t = skipn 3 holder_prog /\ In (tid t, regs t 1%nat - len t, len t) lg /\ regs t 1%nat <= off) \/
      (code t = skipn 4 holder_prog /\ In (tid t, regs t 1%nat - len t, len t) lg /\ regs t 1%nat <= max)
  end.

Record Inv (max lo limit : Z) (c : cfg) : Prop := {
  inv_lo : lo <= c_off c;
  inv_lim : c_off c + pending (c_thr c) <= limit;
  inv_log : Forall (fun e => lo <= snd (fst e) /\ snd (fst e) + snd e <= c_off c /\ 0 <= snd e) (c_log c);
  inv_pd : pdisj (c_log c);
  inv_nd : NoDup (map (fun e => fst (fst e)) (c_log c));
  inv_thr : Forall (tinv max (c_off c) (c_log c)) (c_thr c);
  inv_tids : NoDup (map tid (c_thr c))
}.

Lemma tinv_mono max off off' lg ext t :
  off <= off' -> ~ In (tid t) (map (fun e => fst (fst e)) ext) ->
  tinv max off lg t -> tinv max off' (ext ++ lg) t.
Proof.
  intros Ho Hn [Hl H]. split; [exact Hl|].
  assert (Hin : forall x, In x lg -> In x (ext ++ lg)) by (intros; apply in_or_app; auto).
  assert (Hnin : ~ In (tid t) (map (fun e => fst (fst e)) lg) ->
                 ~ In (tid t) (map (fun e => fst (fst e)) (ext ++ lg))).
  { intros H1. rewrite map_app. intros H2. apply in_app_or in H2 as [H2|H2]; auto. }
  destruct (res t) as [[a|]|]; [destruct H; split; auto | exact I |].
  destruct H as [[? ?]|[[? [? ?]]|[[? ?]|[[? [? ?]]|[? [? ?]]]]]].
  - left; auto.
  - right; left. repeat split; auto; lia.
  - right; right; left; auto.
  - right; right; right; left. repeat split; auto; lia.
  - right; right; right; right. repeat split; auto.
Qed.

Lemma Forall_tinv_mono max off off' lg ext ts :
  off <= off' -> (forall t, In t ts -> ~ In (tid t) (map (fun e => fst (fst e)) ext)) ->
  Forall (tinv max off lg) ts -> Forall (tinv max off' (ext ++ lg)) ts.
Proof.
  intros Ho Hn H. rewrite Forall_forall in *. intros t Ht. apply tinv_mono with (off := off); auto.
Qed.

Lemma in_map_tid (t : thr) l : In t l -> In (tid t) (map tid l).
Proof. intros; now apply in_map. Qed.

Ltac solve_tids Itids :=
  rewrite map_app in *; cbn [map with_reg with_code finished tid] in *; exact Itids.

(* one step preserves the invariant *)
Lemma step_inv max lo limit c c' :
  lo <= max -> limit < two64 -> 0 <= lo ->
  Inv max lo limit c -> cstep max c c' -> Inv max lo limit c'.
Proof.
  intros Hlm Hlim Hlo0 HI Hs. destruct Hs as [off l1 t l2 lg].
  destruct HI as [Ilo Ilim Ilog Ipd Ind Ithr Itids]. cbn [c_off c_thr c_log] in *.
  rewrite pending_app, pending_cons in Ilim.
  assert (Ht : tinv max off lg t).
  { rewrite Forall_forall in Ithr. apply Ithr. apply in_or_app. right. left. reflexivity. }
  assert (Hothers : Forall (tinv max off lg) l1 /\ Forall (tinv max off lg) l2).
  { apply Forall_app in Ithr as [H1 H2]. inversion H2; subst. auto. }
  destruct Hothers as [Hl1 Hl2].
  assert (Htid_other : forall t', In t' l1 \/ In t' l2 -> tid t' <> tid t).
  { intros t' Hin Heq. rewrite map_app in Itids. cbn [map] in Itids.
    apply NoDup_remove_2 in Itids. apply Itids. apply in_or_app.
    destruct Hin as [Hin|Hin]; [left|right]; rewrite <- Heq; now apply in_map. }
  assert (Hpl1 : 0 <= pending l1 /\ 0 <= pending l2).
  { split.
    - clear - Hl1. induction Hl1 as [|x l Hx _ IH]; [cbn; lia|]. rewrite pending_cons.
      unfold pending1. destruct Hx as [Hx _]. destruct (before_add x); lia.
    - clear - Hl2. induction Hl2 as [|x l Hx _ IH]; [cbn; lia|]. rewrite pending_cons.
      unfold pending1. destruct Hx as [Hx _]. destruct (before_add x); lia. }
  destruct Ht as [Hlen Ht].
  assert (Hp1t : 0 <= pending1 t) by (unfold pending1; destruct (before_add t); lia).
  unfold step1.
  destruct (res t) as [r|] eqn:Hres.
  { (* finished thread: nothing changes *)
    cbn [app]. constructor; cbn [c_off c_thr c_log]; auto; try solve [solve_tids Itids].
    rewrite pending_app, pending_cons. lia. }
  destruct Ht as [[Hc Hnl]|[[Hc [Hnl Hr]]|[[Hc Hnl]|[[Hc [Hin Hr]]|[Hc [Hin Hr]]]]]]; rewrite Hc;
    cbn [holder_prog skipn].
  - (* ILoad 0 *)
    cbn [app]. constructor; cbn [c_off c_thr c_log]; auto; try solve [solve_tids Itids].
    + rewrite pending_app, pending_cons. unfold pending1 in *. unfold before_add in *. rewrite Hres, Hc in Ilim.
      cbn [with_reg with_code finished res code len holder_prog skipn] in *. rewrite Hres. lia.
    + apply Forall_app. split; [exact Hl1|]. constructor; [|exact Hl2].
      split; [exact Hlen|]. cbn [with_reg res]. rewrite Hres.
      right; left. cbn [with_reg code regs tid len setreg Nat.eqb]. repeat split; auto; lia.
  - (* IFailIfGt (r0 + len) max *)
    cbn [eval]. destruct (_ >? _) eqn:Hgt.
    + cbn [app]. constructor; cbn [c_off c_thr c_log]; auto; try solve [solve_tids Itids].
      * rewrite pending_app, pending_cons. unfold pending1 in *. unfold before_add in *.
        rewrite Hres, Hc in Ilim. cbn [with_reg with_code finished res code len holder_prog skipn] in *. lia.
      * apply Forall_app. split; [exact Hl1|]. constructor; [|exact Hl2].
        split; [exact Hlen|]. cbn [finished res]. exact I.
    + cbn [app]. constructor; cbn [c_off c_thr c_log]; auto; try solve [solve_tids Itids].
      * rewrite pending_app, pending_cons. unfold pending1 in *. unfold before_add in *.
        rewrite Hres, Hc in Ilim. cbn [with_reg with_code finished res code len holder_prog skipn] in *. rewrite Hres. lia.
      * apply Forall_app. split; [exact Hl1|]. constructor; [|exact Hl2].
        split; [exact Hlen|]. cbn [with_code res]. rewrite Hres.
        right; right; left. cbn [with_code code tid regs len]. auto.
  - (* IFetchAdd 1 len : the claim *)
    cbn [eval].
    assert (Hp1 : pending1 t = len t).
    { unfold pending1, before_add. rewrite Hres, Hc. reflexivity. }
    rewrite Hp1 in Ilim.
    assert (Hnew : wrapu 64 (off + len t) = off + len t).
    { apply wrapu_small. unfold two64 in Hlim. lia. }
    rewrite Hnew.
    constructor; cbn [c_off c_thr c_log app].
    + lia.
    + rewrite pending_app, pending_cons. unfold pending1 at 1, before_add.
      cbn [with_reg res code len]. rewrite Hres. lia.
    + constructor; [cbn [fst snd]; lia|].
      eapply Forall_impl; [|exact Ilog]. cbn beta. intros e [? [? ?]]. repeat split; lia.
    + cbn [pdisj]. split; [|exact Ipd].
      eapply Forall_impl; [|exact Ilog]. cbn beta. intros e [? [? ?]].
      unfold disj, lreg. cbn [fst snd]. right. lia.
    + cbn [map fst]. constructor; [exact Hnl | exact Ind].
    + apply Forall_app. split; [|constructor].
      * apply (Forall_tinv_mono max off (off + len t) lg [(tid t, off, len t)] l1); [lia| |exact Hl1].
        intros t' Hin. cbn [map fst]. intros [Heq|[]]. apply (Htid_other t'); auto.
      * split; [exact Hlen|]. cbn [with_reg res]. rewrite Hres.
        right; right; right; left. cbn [with_reg code regs tid len setreg Nat.eqb].
        split; [reflexivity|]. split; [|lia]. left. f_equal. f_equal. lia.
      * apply (Forall_tinv_mono max off (off + len t) lg [(tid t, off, len t)] l2); [lia| |exact Hl2].
        intros t' Hin. cbn [map fst]. intros [Heq|[]]. apply (Htid_other t'); auto.
    + rewrite map_app in *. cbn [map with_reg tid] in *. exact Itids.
  - (* IFailIfGt r1 max *)
    cbn [eval]. destruct (_ >? _) eqn:Hgt.
    + cbn [app]. constructor; cbn [c_off c_thr c_log]; auto; try solve [solve_tids Itids].
      * rewrite pending_app, pending_cons. unfold pending1 in *. unfold before_add in *.
        rewrite Hres, Hc in Ilim. cbn [with_reg with_code finished res code len holder_prog skipn] in *. lia.
      * apply Forall_app. split; [exact Hl1|]. constructor; [|exact Hl2].
        split; [exact Hlen|]. cbn [finished res]. exact I.
    + cbn [app]. constructor; cbn [c_off c_thr c_log]; auto; try solve [solve_tids Itids].
      * rewrite pending_app, pending_cons. unfold pending1 in *. unfold before_add in *.
        rewrite Hres, Hc in Ilim. cbn [with_reg with_code finished res code len holder_prog skipn] in *. rewrite Hres. lia.
      * apply Forall_app. split; [exact Hl1|]. constructor; [|exact Hl2].
        split; [exact Hlen|]. cbn [with_code res]. rewrite Hres.
        right; right; right; right. cbn [with_code code tid regs len].
        split; [reflexivity|]. split; [exact Hin|]. rewrite Z.gtb_ltb in Hgt. apply Z.ltb_ge in Hgt. exact Hgt.
  - (* IRet (r1 - len) *)
    cbn [app eval]. constructor; cbn [c_off c_thr c_log]; auto; try solve [solve_tids Itids].
    + rewrite pending_app, pending_cons. unfold pending1 in *. unfold before_add in *.
      rewrite Hres, Hc in Ilim. cbn [with_reg with_code finished res code len holder_prog skipn] in *. lia.
    + apply Forall_app. split; [exact Hl1|]. constructor; [|exact Hl2].
      split; [exact Hlen|]. cbn [finished res len tid].
      (* the claimed region starts at r1 - len >= lo >= 0, so the uintptr subtraction does not wrap *)
      rewrite Forall_forall in Ilog. pose proof (Ilog _ Hin) as [Hs [He Hn]]. cbn [fst snd] in *.
      assert (Hw : wrapu 64 (regs t 1%nat - len t) = regs t 1%nat - len t).
      { apply wrapu_small. unfold two64 in Hlim. lia. }
      rewrite Hw. split; [exact Hin | lia].
Qed.

Lemma reach_inv max lo limit c c' :
  lo <= max -> limit < two64 -> 0 <= lo ->
  Inv max lo limit c -> creach max c c' -> Inv max lo limit c'.
Proof.
  intros H1 H2 H3 HI Hr. induction Hr as [|c1 c2 c3 _ IH Hs]; [exact HI|].
  apply (step_inv max lo limit c2 c3); auto.
Qed.

(* the initial configuration satisfies the invariant *)
Lemma pending_init ns k :
  pending (map (fun p => new_thr holder_prog (fst p) (snd p)) (combine (seq k (length ns)) ns)) = fold_right Z.add 0 ns.
Proof.
  revert k; induction ns as [|n ns IH]; intros k; [reflexivity|].
  cbn [length seq combine map fold_right]. rewrite pending_cons, IH. reflexivity.
Qed.

Lemma init_tids ns k :
  map tid (map (fun p => new_thr holder_prog (fst p) (snd p)) (combine (seq k (length ns)) ns)) = seq k (length ns).
Proof.
  revert k; induction ns as [|n ns IH]; intros k; [reflexivity|].
  cbn [length seq combine map]. rewrite IH. reflexivity.
Qed.

Lemma init_inv max lo ns :
  Forall (fun n => 0 <= n) ns ->
  Inv max lo (lo + fold_right Z.add 0 ns) (init_cfg holder_prog lo ns).
Proof.
  intros Hns. unfold init_cfg. constructor; cbn [c_off c_thr c_log].
  - lia.
  - rewrite pending_init. lia.
  - constructor.
  - exact I.
  - constructor.
  - assert (G : forall k, Forall (tinv max lo [])
       (map (fun p => new_thr holder_prog (fst p) (snd p)) (combine (seq k (length ns)) ns))).
    { induction Hns as [|n ns Hn _ IH]; intros k; [constructor|].
      cbn [length seq combine map]. constructor; [|apply IH].
      split; [exact Hn|]. cbn [new_thr res]. left. split; [reflexivity|]. cbn. tauto. }
    apply G.
  - rewrite init_tids. apply seq_NoDup.
Qed.

(* two log entries with different tids are disjoint *)
Lemma pdisj_in lg e1 e2 :
  pdisj lg -> In e1 lg -> In e2 lg -> fst (fst e1) <> fst (fst e2) -> disj (lreg e1) (lreg e2).
Proof.
  induction lg as [|e k IH]; intros Hp H1 H2 Hne; [inversion H1|].
  destruct Hp as [Hf Hp]. rewrite Forall_forall in Hf.
  destruct H1 as [<-|H1], H2 as [<-|H2].
  - congruence.
  - apply Hf; exact H2.
  - destruct (Hf _ H1) as [H|H]; [right|left]; exact H.
  - apply IH; auto.
Qed.

Lemma nth_error_tids_neq (ts : list thr) i j t1 t2 :
  NoDup (map tid ts) -> i <> j -> nth_error ts i = Some t1 -> nth_error ts j = Some t2 -> tid t1 <> tid t2.
Proof.
  intros Hnd Hij H1 H2 Heq.
  assert (E1 : nth_error (map tid ts) i = Some (tid t1)) by (rewrite nth_error_map, H1; reflexivity).
  assert (E2 : nth_error (map tid ts) j = Some (tid t2)) by (rewrite nth_error_map, H2; reflexivity).
  rewrite Heq in E1.
  assert (Hi : (i < length (map tid ts))%nat) by (apply nth_error_Some; congruence).
  apply Hij. eapply (proj1 (NoDup_nth_error _) Hnd); [exact Hi | congruence].
Qed.

(* MAIN: all thread counts, all request sizes, all schedules *)
Theorem conc_regions_disjoint_inbounds max lo ns c :
  0 <= lo <= max -> Forall (fun n => 0 <= n) ns -> lo + fold_right Z.add 0 ns < 2 ^ 64 ->
  creach max (init_cfg holder_prog lo ns) c ->
  (forall i t a, nth_error (c_thr c) i = Some t -> res t = Some (Some a) ->
       lo <= a /\ a + len t <= max) /\
  (forall i j t1 t2 a1 a2, i <> j ->
       nth_error (c_thr c) i = Some t1 -> nth_error (c_thr c) j = Some t2 ->
       res t1 = Some (Some a1) -> res t2 = Some (Some a2) ->
       disj (a1, len t1) (a2, len t2)).
Proof.
  intros Hlo Hns Hlim Hr.
  pose proof (reach_inv max lo _ _ _ ltac:(lia) Hlim ltac:(lia) (init_inv max lo ns Hns) Hr) as HI.
  destruct HI as [Ilo Ilim Ilog Ipd Ind Ithr Itids].
  rewrite Forall_forall in Ithr, Ilog.
  split.
  - intros i t a Hn Hres. apply nth_error_In in Hn. destruct (Ithr _ Hn) as [_ H]. rewrite Hres in H.
    destruct H as [Hin Hb]. destruct (Ilog _ Hin) as [H1 _]. cbn [fst snd] in H1. lia.
  - intros i j t1 t2 a1 a2 Hij H1 H2 R1 R2.
    pose proof (nth_error_tids_neq _ _ _ _ _ Itids Hij H1 H2) as Hne.
    apply nth_error_In in H1, H2.
    destruct (Ithr _ H1) as [_ G1]. destruct (Ithr _ H2) as [_ G2]. rewrite R1 in G1. rewrite R2 in G2.
    exact (pdisj_in _ _ _ Ipd (proj1 G1) (proj1 G2) Hne).
Qed.

(* sequential corollaries: a history of requests run one after the other *)
Lemma acquire_spec max off n :
  0 <= off -> 0 <= n -> off + n < 2 ^ 64 -> off <= max ->
  acquire holder_prog max off n = if off + n >? max then (off, None) else (off + n, Some off).
Proof.
  intros Ho Hn Hw Hm. unfold acquire, run_thr, step1, new_thr, holder_prog.
  cbn [length res code with_reg eval regs setreg Nat.eqb len].
  rewrite (wrapu_small 64 (off + n)) by lia.
  destruct (off + n >? max) eqn:E; cbn [finished with_code res code with_reg regs setreg Nat.eqb eval len].
  - reflexivity.
  - rewrite (wrapu_small 64 (off + n)) by lia. rewrite E.
    cbn [finished with_code res code with_reg regs setreg Nat.eqb eval len].
    replace (wrapu 64 (off + n - n)) with off by (rewrite wrapu_small; lia). reflexivity.
Qed.

(* exhaustion is an error and never moves the bump pointer beyond max; successes are [off, off+n) *)
Theorem seq_acquire_sound max off n off' r :
  0 <= off <= max -> 0 <= n -> max + n < 2 ^ 64 ->
  acquire holder_prog max off n = (off', r) ->
  match r with
  | Some a => a = off /\ off' = off + n /\ off' <= max
  | None => off' = off /\ off + n > max
  end.
Proof.
  intros Ho Hn Hw. rewrite acquire_spec by lia.
  destruct (off + n >? max) eqn:E; intros H; inversion H; subst.
  - split; [reflexivity|]. apply Z.gtb_lt in E. lia.
  - repeat split. rewrite Z.gtb_ltb in E. apply Z.ltb_ge in E. exact E.
Qed.

(* the pre-repair program is refuted by a 2-thread schedule: load1 load2 add1 add2 *)
Definition buggy_witness : list nat := [0; 1; 0; 0; 1; 1; 0; 0; 1; 1]%nat.
Theorem buggy_prog_refuted :
  cfg_ok 100 1000 (run_sched 1000 (init_cfg holder_prog_buggy 100 [8; 8]) buggy_witness) = false.
Proof. vm_compute. reflexivity. Qed.

(* non-vacuity: the repaired program on the same schedule hands out two regions, disjoint *)
Example repaired_same_schedule :
  returned (run_sched 1000 (init_cfg holder_prog 100 [8; 8]) buggy_witness) = [(100, 8); (108, 8)].
Proof. vm_compute. reflexivity. Qed.
