From Coq Require Import List Arith Bool Lia.
From Goom Require Import Model.Conc.
Import ListNotations.

Lemma nth_error_set_same (ts : list thread) i t : i < length ts -> nth_error (set_thread ts i t) i = Some t.
Proof.
  intros H. unfold set_thread. rewrite nth_error_app2 by (rewrite firstn_length; lia).
  rewrite firstn_length, Nat.min_l by lia. rewrite Nat.sub_diag. reflexivity.
Qed.

Lemma nth_error_firstn' {A} (l : list A) : forall n j, j < n -> nth_error (firstn n l) j = nth_error l j.
Proof. induction l as [|x l IH]; intros [|n] [|j] H; simpl; try reflexivity; try lia. apply IH. lia. Qed.

Lemma nth_error_skipn' {A} (l : list A) : forall n j, nth_error (skipn n l) j = nth_error l (n + j).
Proof. induction l as [|x l IH]; intros [|n] j; simpl; try reflexivity; [destruct j; reflexivity|apply IH]. Qed.

Lemma nth_error_set_other (ts : list thread) i j t : i < length ts -> j <> i -> nth_error (set_thread ts i t) j = nth_error ts j.
Proof.
  intros H Hne. unfold set_thread. destruct (lt_dec j i) as [Hl|Hl].
  - rewrite nth_error_app1 by (rewrite firstn_length; lia). apply nth_error_firstn'. exact Hl.
  - rewrite nth_error_app2 by (rewrite firstn_length; lia). rewrite firstn_length, Nat.min_l by lia.
    destruct (j - i) as [|k] eqn:E; [lia|]. cbn [nth_error]. rewrite nth_error_skipn'. f_equal. lia.
Qed.

Lemma existsb_eqb_true l held : existsb (Nat.eqb l) held = true <-> In l held.
Proof.
  rewrite existsb_exists. split.
  - intros (x & Hin & He). apply Nat.eqb_eq in He. subst. exact Hin.
  - intros H. exists l. split; [exact H|apply Nat.eqb_refl].
Qed.

Section Facts.
  Variable protects : nat -> nat.

  (* invariant: each thread's remaining program is well locked for what it holds, and 'holds' and 'owner' agree *)
  Definition CInv (s : cstate) : Prop :=
    forall i t, nth_error (threads s) i = Some t ->
      wl protects (t_held t) (t_prog t) = true /\
      (forall l, In l (t_held t) <-> owner s l = Some i).

  Lemma cstep_inv s s' : CInv s -> cstep s s' -> CInv s'.
  Proof.
    intros HI Hs. inversion Hs as [s0 i t l r Ht Hp Ho|s0 i t l r Ht Hp Ho|s0 i t loc w r Ht Hp]; subst; clear Hs.
    - assert (Hlen : i < length (threads s)) by (apply nth_error_Some; congruence).
      destruct (HI i t Ht) as [Hwl Hown]. rewrite Hp in Hwl. cbn [wl] in Hwl. apply andb_true_iff in Hwl. destruct Hwl as [Hnot Hwl].
      intros j tj Hj. cbn [threads owner] in *. destruct (Nat.eq_dec j i) as [->|Hne].
      + rewrite nth_error_set_same in Hj by exact Hlen. inversion Hj; subst tj. cbn [t_held t_prog]. split; [exact Hwl|].
        intros l'. destruct (Nat.eqb l' l) eqn:E.
        * apply Nat.eqb_eq in E. subst. split; [reflexivity|left; reflexivity].
        * apply Nat.eqb_neq in E. rewrite <- Hown. simpl. split; [intros [H|H]; [congruence|exact H]|auto].
      + rewrite nth_error_set_other in Hj by assumption. destruct (HI j tj Hj) as [Hw2 Ho2]. split; [exact Hw2|].
        intros l'. destruct (Nat.eqb l' l) eqn:E.
        * apply Nat.eqb_eq in E. subst. rewrite Ho2, Ho. split; [discriminate|intros H; inversion H; congruence].
        * exact (Ho2 l').
    - assert (Hlen : i < length (threads s)) by (apply nth_error_Some; congruence).
      destruct (HI i t Ht) as [Hwl Hown]. rewrite Hp in Hwl. cbn [wl] in Hwl. apply andb_true_iff in Hwl. destruct Hwl as [Hin Hwl].
      intros j tj Hj. cbn [threads owner] in *. destruct (Nat.eq_dec j i) as [->|Hne].
      + rewrite nth_error_set_same in Hj by exact Hlen. inversion Hj; subst tj. cbn [t_held t_prog]. split; [exact Hwl|].
        intros l'. rewrite filter_In. destruct (Nat.eqb l' l) eqn:E.
        * apply Nat.eqb_eq in E. subst. rewrite Nat.eqb_refl. simpl. split; [intros [_ H]; discriminate|discriminate].
        * rewrite Nat.eqb_sym, E. simpl. rewrite <- Hown. tauto.
      + rewrite nth_error_set_other in Hj by assumption. destruct (HI j tj Hj) as [Hw2 Ho2]. split; [exact Hw2|].
        intros l'. destruct (Nat.eqb l' l) eqn:E.
        * apply Nat.eqb_eq in E. subst. rewrite Ho2, Ho. split; [intros H; inversion H; congruence|discriminate].
        * exact (Ho2 l').
    - assert (Hlen : i < length (threads s)) by (apply nth_error_Some; congruence).
      destruct (HI i t Ht) as [Hwl Hown]. rewrite Hp in Hwl. cbn [wl] in Hwl. apply andb_true_iff in Hwl. destruct Hwl as [_ Hwl].
      intros j tj Hj. cbn [threads owner] in *. destruct (Nat.eq_dec j i) as [->|Hne].
      + rewrite nth_error_set_same in Hj by exact Hlen. inversion Hj; subst tj. cbn [t_held t_prog]. split; [exact Hwl|exact Hown].
      + rewrite nth_error_set_other in Hj by assumption. exact (HI j tj Hj).
  Qed.

  Lemma creach_inv s s' : CInv s -> creach s s' -> CInv s'.
  Proof. intros HI H. induction H as [|s s1 s2 _ IH Hs]; [exact HI|]. apply (cstep_inv s1 s2 (IH HI) Hs). Qed.

  Lemma init_inv progs : forallb (wl protects []) progs = true -> CInv (init_state progs).
  Proof.
    intros H i t Ht. unfold init_state in Ht. cbn [threads] in Ht. rewrite nth_error_map in Ht.
    destruct (nth_error progs i) as [p|] eqn:E; [|discriminate]. inversion Ht; subst t. cbn [t_held t_prog owner init_state].
    split.
    - rewrite forallb_forall in H. apply H. eapply nth_error_In. exact E.
    - intros l. simpl. split; [tauto|discriminate].
  Qed.

  (* LOCKSET SOUNDNESS: for every number of threads, every well-locked program and EVERY interleaving: a thread about
     to access a shared location owns the mutex that protects it; hence two different threads are never both about to
     access the same location -- conflicting accesses are always separated by a release/acquire of that mutex *)
  Theorem lockset_sound progs s : forallb (wl protects []) progs = true -> creach (init_state progs) s ->
    forall i t loc w r, nth_error (threads s) i = Some t -> t_prog t = Acc loc w :: r -> owner s (protects loc) = Some i.
  Proof.
    intros Hwl Hr i t loc w r Ht Hp. destruct (creach_inv _ _ (init_inv progs Hwl) Hr i t Ht) as [Hw Hown].
    rewrite Hp in Hw. cbn [wl] in Hw. apply andb_true_iff in Hw. destruct Hw as [Hin _].
    apply Hown. apply existsb_eqb_true. exact Hin.
  Qed.

  Corollary no_two_accessors progs s : forallb (wl protects []) progs = true -> creach (init_state progs) s ->
    forall i j ti tj loc w w' r r', nth_error (threads s) i = Some ti -> nth_error (threads s) j = Some tj ->
      t_prog ti = Acc loc w :: r -> t_prog tj = Acc loc w' :: r' -> i = j.
  Proof.
    intros Hwl Hr i j ti tj loc w w' r r' Hi Hj Hpi Hpj.
    pose proof (lockset_sound progs s Hwl Hr i ti loc w r Hi Hpi) as H1.
    pose proof (lockset_sound progs s Hwl Hr j tj loc w' r' Hj Hpj) as H2. congruence.
  Qed.
End Facts.
