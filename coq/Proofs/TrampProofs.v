(* C03 -- proofs about Model/Tramp.v: what fixRelativeAddr builds is a faithful relocation of the copied prefix *)
From Goom Require Import Base.MachineInt Proofs.JumpEncProofs Proofs.WrapTac Model.Tramp.
From Coq Require Import List ZArith Bool Lia.
Import ListNotations.
Open Scope Z_scope.

Lemma lenZ_app {A} (a b : list A) : lenZ (a ++ b) = lenZ a + lenZ b.
Proof. unfold lenZ. rewrite app_length. lia. Qed.

Lemma lenZ_nonneg {A} (a : list A) : 0 <= lenZ a.
Proof. unfold lenZ. lia. Qed.

Lemma disp_bytes_len w d : 0 <= w -> lenZ (disp_bytes w d) = w.
Proof. intros H. unfold disp_bytes, lenZ. rewrite bytes_le_length. lia. Qed.

Lemma disp4_eq X D : wrapu 32 X = wrapu 32 D -> bytes_le 4 (wrapu 32 X) = disp_bytes 4 D.
Proof. intros H. unfold disp_bytes. rewrite H. reflexivity. Qed.

Section Facts.
  Variable op_expand : list (Z * list Z).
  Local Notation encode_address := (encode_address op_expand).
  Local Notation fix_ins := (fix_ins op_expand).
  Local Notation fix_block := (fix_block op_expand).

  Lemma int32_overflow_false v : int32_overflow v = false -> - 2147483648 <= v <= 2147483647.
  Proof. unfold int32_overflow. destruct (v >? 0) eqn:E; lia. Qed.

  (* EncodeAddress: the re-encoded operand denotes the old value plus the shift, exactly, in its (possibly wider) field *)
  Lemma encode_ok ops w val add r :
    (w = 1 \/ w = 4) -> in_s (8 * w) val -> in_s 32 add ->
    encode_address ops w val add = Some r ->
    exists ops' w' d', r = ops' ++ disp_bytes w' d' /\ in_s (8 * w') d' /\ (w' = 1 \/ w' = 4) /\
       lenZ ops' + w' + d' = lenZ ops + w + val + add /\
       ((ops' = ops /\ w' = w) \/ (w = 1 /\ w' = 4 /\ lookup_expand op_expand (nthZ ops 0) = Some ops')).
  Proof.
    intros [Hw|Hw] Hval Hadd; subst w; unfold encode_address; cbn [Z.eqb Pos.eqb]; cbv zeta.
    - (* rel8 *)
      unfold in_s in Hval, Hadd. change (2 ^ (8 * 1 - 1)) with 128 in Hval. change (2 ^ (32 - 1)) with 2147483648 in Hadd.
      assert (H8 : wraps 8 val = val) by (apply wraps_small; [lia | change (2 ^ (8 - 1)) with 128; lia]).
      assert (Ha : wraps 32 add = add) by (apply wraps_small; [lia | change (2 ^ (32 - 1)) with 2147483648; lia]).
      assert (Hv : wraps 32 val = val) by (apply wraps_small; [lia | change (2 ^ (32 - 1)) with 2147483648; lia]).
      rewrite H8, Ha, Hv.
      destruct (int32_overflow (val + add)) eqn:Eo32.
      + (* |val+add| beyond int32 cannot happen for a byte plus an int32 that is not at the very edge; handle generally *)
        destruct (negb _) eqn:En.
        * intros [= <-].
          (* v wrapped: show v = val + add mod 2^32 within byte range is impossible to conclude exactness -> use range *)
          exfalso. apply negb_true_iff in En.
          set (v := wraps 32 (val + add)) in *.
          assert (Hvr : -128 <= v <= 127) by (destruct (v >? 0) eqn:E; lia).
          unfold int32_overflow in Eo32.
          assert (Hc : congM (2 ^ 32) v (val + add)) by (apply wraps_congM; lia).
          destruct Hc as [k Hk]. change (2 ^ 32) with 4294967296 in Hk.
          destruct (val + add >? 0) eqn:E2; lia.
        * destruct (lookup_expand op_expand (nthZ ops 0)) as [ops_new|]; [|intros Hd; discriminate Hd].
          destruct (int32_overflow (val + add - 3 - (lenZ ops_new - lenZ ops))) eqn:Eo; [intros Hd; discriminate Hd|]. intros [= <-].
          apply int32_overflow_false in Eo.
          exists ops_new, 4, (val + add - 3 - (lenZ ops_new - lenZ ops)).
          split; [|split; [|split; [|split]]].
          -- f_equal. apply disp4_eq. wrap_eq.
          -- unfold in_s. change (2 ^ (8 * 4 - 1)) with 2147483648. lia.
          -- right; reflexivity.
          -- lia.
          -- right. auto.
      + apply int32_overflow_false in Eo32.
        assert (Hvv : wraps 32 (val + add) = val + add) by (apply wraps_small; [lia | change (2 ^ (32 - 1)) with 2147483648; lia]).
        rewrite Hvv.
        destruct (negb _) eqn:En.
        * intros [= <-]. apply negb_true_iff in En.
          assert (Hvr : -128 <= val + add <= 127) by (destruct (val + add >? 0) eqn:E; lia).
          exists ops, 1, (val + add). split; [|split; [|split; [|split]]].
          -- f_equal. unfold disp_bytes. change (Z.to_nat 1) with 1%nat. change (8 * 1) with 8. cbn [bytes_le]. f_equal.
             unfold wrapu. rewrite Z.mod_mod by lia. reflexivity.
          -- unfold in_s. change (2 ^ (8 * 1 - 1)) with 128. lia.
          -- left; reflexivity.
          -- lia.
          -- left. auto.
        * destruct (lookup_expand op_expand (nthZ ops 0)) as [ops_new|]; [|intros Hd; discriminate Hd].
          destruct (int32_overflow (val + add - 3 - (lenZ ops_new - lenZ ops))) eqn:Eo; [intros Hd; discriminate Hd|]. intros [= <-].
          apply int32_overflow_false in Eo.
          exists ops_new, 4, (val + add - 3 - (lenZ ops_new - lenZ ops)).
          split; [|split; [|split; [|split]]].
          -- f_equal. apply disp4_eq. wrap_eq.
          -- unfold in_s. change (2 ^ (8 * 4 - 1)) with 2147483648. lia.
          -- right; reflexivity.
          -- lia.
          -- right. auto.
    - (* rel32 *)
      destruct (int32_overflow (val + add)) eqn:Eo; [intros Hd; discriminate Hd|]. intros [= <-].
      apply int32_overflow_false in Eo.
      exists ops, 4, (val + add). split; [|split; [|split; [|split]]].
      + f_equal. apply disp4_eq. wrap_eq.
      + unfold in_s. change (2 ^ (8 * 4 - 1)) with 2147483648. lia.
      + right; reflexivity.
      + lia.
      + left. auto.
  Qed.

  (* ------------------------------------------------------------------ one instruction *)
  Definition outer (i : dins) (pos bsz : Z) : bool :=
    (0 <? d_w i) &&
    (((d_disp i >? 0) && (d_disp i + pos + d_len i >=? bsz)) || ((d_disp i <? 0) && (d_disp i + pos + d_len i <? 0))).

  (* what the decoder interface guarantees about one instruction (C16): a PC-relative field of width 1 or 4 whose
     value fits the field, preceded by at least one opcode byte *)
  Definition wf_ins (i : dins) : Prop :=
    d_bad i = false /\ d_opzero i = false /\ 0 < d_len i <= 15 /\ (d_w i = 0 \/ ((d_w i = 1 \/ d_w i = 4) /\ in_s (8 * d_w i) (d_disp i) /\ 0 < lenZ (d_pre i))).

  Lemma d_len_pos i : wf_ins i -> 0 < d_len i.
  Proof. intros (_ & _ & H & _). lia. Qed.

  Definition moved (delta : Z) (i : dins) (pos np : Z) (ops' : list Z) (w' d' : Z) : Prop :=
    in_s (8 * w') d' /\ (w' = 1 \/ w' = 4) /\
    (np + (lenZ ops' + w' + lenZ (d_post i))) + d' = delta + pos + d_len i + d_disp i /\
    ((ops' = d_pre i /\ w' = d_w i) \/ (d_w i = 1 /\ w' = 4 /\ lookup_expand op_expand (nthZ (d_pre i) 0) = Some ops')).

  Lemma fix_ins_ok i pos bsz delta np bs :
    wf_ins i -> in_s 32 (delta - (np - pos)) ->
    fix_ins i pos bsz (delta - (np - pos)) = FOk bs ->
    (outer i pos bsz = false /\ bs = d_bytes i) \/
    (outer i pos bsz = true /\ exists ops' w' d', bs = ops' ++ disp_bytes w' d' ++ d_post i /\ moved delta i pos np ops' w' d').
  Proof.
    intros (Hb & Hz & _ & Hw) Hd. unfold fix_ins, outer.
    destruct Hw as [Hw|(Hw & Hin & Hpre)].
    - rewrite Hw. cbn. intros [= <-]. left. auto.
    - assert (Hwpos : (d_w i <=? 0) = false) by (destruct Hw as [Hw|Hw]; rewrite Hw; reflexivity).
      assert (Hwpos' : (0 <? d_w i) = true) by (destruct Hw as [Hw|Hw]; rewrite Hw; reflexivity).
      rewrite Hwpos, Hwpos'. cbn [andb].
      destruct (((d_disp i >? 0) && (d_disp i + pos + d_len i >=? bsz)) || ((d_disp i <? 0) && (d_disp i + pos + d_len i <? 0))) eqn:Eo.
      + destruct (encode_address (d_pre i) (d_w i) (d_disp i) (delta - (np - pos))) as [r|] eqn:Ee; [|intros Hx; discriminate Hx].
        destruct (encode_ok _ _ _ _ _ Hw Hin Hd Ee) as (ops' & w' & d' & Hr & Hin' & Hw' & Heq & Hform).
        assert (Hlen : (lenZ r >? d_w i) = true).
        { subst r. rewrite lenZ_app, disp_bytes_len by (destruct Hw' as [->| ->]; lia).
          destruct Hform as [[-> ->]|(Hw1 & -> & _)]; [lia|]. pose proof (lenZ_nonneg ops'). lia. }
        rewrite Hlen. intros [= <-]. right. split; [reflexivity|].
        exists ops', w', d'. split; [subst r; rewrite <- app_assoc; reflexivity|].
        unfold moved. split; [exact Hin'|]. split; [exact Hw'|]. split; [|exact Hform].
        unfold d_len. lia.
      + intros [= <-]. left. auto.
  Qed.

  (* ------------------------------------------------------------------ the copied prefix *)
  (* reloc delta bsz pre pos np bs: bs is the relocation of the instructions pre, which start at offset pos of the
     function and at offset np of the trampoline (delta = function address - trampoline address): one chunk per
     instruction, in order; an instruction whose operand stays inside [0, bsz) is copied verbatim; any other keeps its
     opcode bytes (or their long form) and trailing bytes, and its operand denotes the same absolute address as before *)
  Inductive reloc (delta bsz : Z) : list dins -> Z -> Z -> list Z -> Prop :=
  | RNil pos np : reloc delta bsz [] pos np []
  | RKeep i rest pos np bs :
      outer i pos bsz = false ->
      reloc delta bsz rest (pos + d_len i) (np + d_len i) bs ->
      reloc delta bsz (i :: rest) pos np (d_bytes i ++ bs)
  | RMove i rest pos np ops' w' d' bs :
      outer i pos bsz = true ->
      moved delta i pos np ops' w' d' ->
      reloc delta bsz rest (pos + d_len i) (np + (lenZ ops' + w' + lenZ (d_post i))) bs ->
      reloc delta bsz (i :: rest) pos np (ops' ++ disp_bytes w' d' ++ d_post i ++ bs).

  Hypothesis expand_small : forall k v, lookup_expand op_expand k = Some v -> lenZ v <= 2.

  Fixpoint sum_len (is : list dins) : Z := match is with [] => 0 | i :: r => d_len i + sum_len r end.

  Lemma d_bytes_len i : wf_ins i -> lenZ (d_bytes i) = d_len i.
  Proof.
    intros (_ & _ & _ & H). unfold d_bytes, d_len. rewrite !lenZ_app. rewrite disp_bytes_len; [lia|].
    destruct H as [H|[[H|H] _]]; lia.
  Qed.

  (* where fixBlock stops: the first instruction boundary at or beyond `least` whose successor is not a RET *)
  Fixpoint stop_pos (is : list dins) (pos least : Z) : option Z :=
    match is with
    | [] => None
    | i :: rest =>
        let pos' := pos + d_len i in
        if (least >? 0) && (pos' >=? least) then
          match rest with
          | [] => None
          | nxt :: _ => if negb (d_isret nxt) then Some pos' else stop_pos rest pos' least
          end
        else stop_pos rest pos' least
    end.

  Lemma fix_block_reloc is : forall pos acc pm refs least bsz delta data n,
    Forall wf_ins is ->
    - 2 ^ 31 <= delta - (lenZ acc - pos) - 4 * Z.of_nat (length is) ->
    delta - (lenZ acc - pos) + 12 * Z.of_nat (length is) < 2 ^ 31 ->
    fix_block is pos acc pm refs least bsz delta = FOk (data, n) ->
    exists pre rest bs, is = pre ++ rest /\ data = acc ++ bs /\ reloc delta bsz pre pos (lenZ acc) bs /\
      ((rest <> [] /\ n = pos + sum_len pre /\ stop_pos is pos least = Some n) \/
       (rest = [] /\ n = lenZ data /\ stop_pos is pos least = None)).
  Proof.
    induction is as [|i rest IH]; intros pos acc pm refs least bsz delta data n Hwf Hlo Hhi.
    - simpl. destruct (check_inner_refs _ _ _); [|intros Hx; discriminate Hx]. intros [= <- <-].
      exists [], [], []. split; [reflexivity|]. split; [symmetry; apply app_nil_r|]. split; [constructor|]. right. auto.
    - inversion Hwf as [|? ? Hi Hrest]; subst. cbn [fix_block].
      destruct Hi as (Hb & Hz & H15 & Hw). rewrite Hb, Hz.
      assert (Hwfi : wf_ins i) by (split; [exact Hb|split; [exact Hz|split; [exact H15|exact Hw]]]).
      assert (Hin32 : in_s 32 (delta - (lenZ acc - pos))).
      { unfold in_s. change (2 ^ (32 - 1)) with (2 ^ 31). cbn [length] in Hlo, Hhi. lia. }
      destruct (fix_ins i pos bsz (delta - (lenZ acc - pos))) as [bs1| |] eqn:Ef; try (intros Hx; discriminate Hx).
      destruct (fix_ins_ok i pos bsz delta (lenZ acc) bs1 Hwfi Hin32 Ef) as [(Ho & Hbs)|(Ho & ops' & w' & d' & Hbs & Hmv)].
      + (* kept *)
        assert (Hl1 : lenZ (acc ++ bs1) = lenZ acc + d_len i) by (rewrite lenZ_app, Hbs, d_bytes_len by exact Hwfi; reflexivity).
        assert (Hstep : forall pm' refs' data' n',
                   stop_pos (i :: rest) pos least = stop_pos rest (pos + d_len i) least ->
                   fix_block rest (pos + d_len i) (acc ++ bs1) pm' refs' least bsz delta = FOk (data', n') ->
                   exists pre rest0 bs, i :: rest = pre ++ rest0 /\ data' = acc ++ bs /\ reloc delta bsz pre pos (lenZ acc) bs /\
                     ((rest0 <> [] /\ n' = pos + sum_len pre /\ stop_pos (i :: rest) pos least = Some n') \/
                      (rest0 = [] /\ n' = lenZ data' /\ stop_pos (i :: rest) pos least = None))).
        { intros pm' refs' data' n' Hsp Hrec.
          assert (G2 : - 2 ^ 31 <= delta - (lenZ (acc ++ bs1) - (pos + d_len i)) - 4 * Z.of_nat (length rest))
            by (rewrite Hl1; cbn [length] in Hlo; lia).
          assert (G3 : delta - (lenZ (acc ++ bs1) - (pos + d_len i)) + 12 * Z.of_nat (length rest) < 2 ^ 31)
            by (rewrite Hl1; cbn [length] in Hhi; lia).
          destruct (IH _ _ _ _ _ _ _ _ _ Hrest G2 G3 Hrec) as (pre & rest0 & bs & He & Hd & Hr & Hn).
          exists (i :: pre), rest0, (bs1 ++ bs). split; [rewrite He; reflexivity|]. split; [rewrite Hd, app_assoc; reflexivity|].
          split.
          - rewrite Hbs. apply RKeep; [exact Ho|]. rewrite <- Hl1. exact Hr.
          - destruct Hn as [(Hne & Hn & Hs)|(He0 & Hn & Hs)]; [left|right]; (split; [assumption|]); (split; [|rewrite Hsp; exact Hs]); [cbn [sum_len]; lia|exact Hn]. }
        assert (Hstop : forall n', (rest <> [] /\ n' = pos + d_len i /\ stop_pos (i :: rest) pos least = Some n') \/
                                   (rest = [] /\ n' = lenZ (acc ++ bs1) /\ stop_pos (i :: rest) pos least = None) ->
                   exists pre rest0 bs, i :: rest = pre ++ rest0 /\ acc ++ bs1 = acc ++ bs /\ reloc delta bsz pre pos (lenZ acc) bs /\
                     ((rest0 <> [] /\ n' = pos + sum_len pre /\ stop_pos (i :: rest) pos least = Some n') \/
                      (rest0 = [] /\ n' = lenZ (acc ++ bs1) /\ stop_pos (i :: rest) pos least = None))).
        { intros n' Hc. exists [i], rest, bs1. split; [reflexivity|]. split; [reflexivity|]. split.
          - rewrite Hbs, <- (app_nil_r (d_bytes i)). apply RKeep; [exact Ho|constructor].
          - destruct Hc as [(Hne & Hn & Hs)|(He & Hn & Hs)]; [left|right]; (split; [assumption|]); (split; [|exact Hs]); [cbn [sum_len]; lia|exact Hn]. }
        destruct ((least >? 0) && (pos + d_len i >=? least)) eqn:Ec.
        * destruct rest as [|nxt rest'].
          -- destruct (check_inner_refs _ _ _); [|intros Hx; discriminate Hx]. intros [= <- <-].
             apply Hstop. right. split; [reflexivity|]. split; [reflexivity|]. cbn [stop_pos]. rewrite Ec. reflexivity.
          -- destruct (d_bad nxt); [intros Hx; discriminate Hx|].
             destruct (negb (d_isret nxt)) eqn:Er.
             ++ destruct (check_inner_refs _ _ _); [|intros Hx; discriminate Hx]. intros [= <- <-].
                apply Hstop. left. split; [discriminate|]. split; [reflexivity|]. cbn [stop_pos]. rewrite Ec, Er. reflexivity.
             ++ apply Hstep. cbn [stop_pos]. rewrite Ec, Er. reflexivity.
        * apply Hstep. cbn [stop_pos]. rewrite Ec. reflexivity.
      + (* moved *)
        set (nl := lenZ ops' + w' + lenZ (d_post i)) in *.
        assert (Hw'pos : 0 <= w') by (destruct Hmv as (_ & [->| ->] & _); lia).
        assert (Hl1 : lenZ (acc ++ bs1) = lenZ acc + nl).
        { rewrite lenZ_app, Hbs, !lenZ_app, disp_bytes_len by exact Hw'pos. unfold nl. lia. }
        assert (Hgrow : d_len i - 12 <= nl <= d_len i + 4).
        { destruct Hmv as (_ & _ & _ & [[-> ->]|(Hw1 & -> & Hlk)]); unfold nl; unfold d_len in *; [lia|].
          pose proof (expand_small _ _ Hlk). pose proof (lenZ_nonneg ops'). pose proof (lenZ_nonneg (d_post i)).
          destruct Hw as [Hw|(_ & _ & Hpre)]; [lia|]. rewrite Hw1 in *. lia. }
        assert (Hstep : forall pm' refs' data' n',
                   stop_pos (i :: rest) pos least = stop_pos rest (pos + d_len i) least ->
                   fix_block rest (pos + d_len i) (acc ++ bs1) pm' refs' least bsz delta = FOk (data', n') ->
                   exists pre rest0 bs, i :: rest = pre ++ rest0 /\ data' = acc ++ bs /\ reloc delta bsz pre pos (lenZ acc) bs /\
                     ((rest0 <> [] /\ n' = pos + sum_len pre /\ stop_pos (i :: rest) pos least = Some n') \/
                      (rest0 = [] /\ n' = lenZ data' /\ stop_pos (i :: rest) pos least = None))).
        { intros pm' refs' data' n' Hsp Hrec.
          assert (G2 : - 2 ^ 31 <= delta - (lenZ (acc ++ bs1) - (pos + d_len i)) - 4 * Z.of_nat (length rest))
            by (rewrite Hl1; cbn [length] in Hlo; lia).
          assert (G3 : delta - (lenZ (acc ++ bs1) - (pos + d_len i)) + 12 * Z.of_nat (length rest) < 2 ^ 31)
            by (rewrite Hl1; cbn [length] in Hhi; lia).
          destruct (IH _ _ _ _ _ _ _ _ _ Hrest G2 G3 Hrec) as (pre & rest0 & bs & He & Hd & Hr & Hn).
          exists (i :: pre), rest0, (bs1 ++ bs). split; [rewrite He; reflexivity|]. split; [rewrite Hd, app_assoc; reflexivity|].
          split.
          - rewrite Hbs, <- !app_assoc. apply RMove; [exact Ho|exact Hmv|]. fold nl. rewrite <- Hl1. exact Hr.
          - destruct Hn as [(Hne & Hn & Hs)|(He0 & Hn & Hs)]; [left|right]; (split; [assumption|]); (split; [|rewrite Hsp; exact Hs]); [cbn [sum_len]; lia|exact Hn]. }
        assert (Hstop : forall n', (rest <> [] /\ n' = pos + d_len i /\ stop_pos (i :: rest) pos least = Some n') \/
                                   (rest = [] /\ n' = lenZ (acc ++ bs1) /\ stop_pos (i :: rest) pos least = None) ->
                   exists pre rest0 bs, i :: rest = pre ++ rest0 /\ acc ++ bs1 = acc ++ bs /\ reloc delta bsz pre pos (lenZ acc) bs /\
                     ((rest0 <> [] /\ n' = pos + sum_len pre /\ stop_pos (i :: rest) pos least = Some n') \/
                      (rest0 = [] /\ n' = lenZ (acc ++ bs1) /\ stop_pos (i :: rest) pos least = None))).
        { intros n' Hc. exists [i], rest, bs1. split; [reflexivity|]. split; [reflexivity|]. split.
          - rewrite Hbs. replace (ops' ++ disp_bytes w' d' ++ d_post i) with (ops' ++ disp_bytes w' d' ++ d_post i ++ []) by (rewrite app_nil_r; reflexivity).
            apply RMove; [exact Ho|exact Hmv|constructor].
          - destruct Hc as [(Hne & Hn & Hs)|(He & Hn & Hs)]; [left|right]; (split; [assumption|]); (split; [|exact Hs]); [cbn [sum_len]; lia|exact Hn]. }
        destruct ((least >? 0) && (pos + d_len i >=? least)) eqn:Ec.
        * destruct rest as [|nxt rest'].
          -- destruct (check_inner_refs _ _ _); [|intros Hx; discriminate Hx]. intros [= <- <-].
             apply Hstop. right. split; [reflexivity|]. split; [reflexivity|]. cbn [stop_pos]. rewrite Ec. reflexivity.
          -- destruct (d_bad nxt); [intros Hx; discriminate Hx|].
             destruct (negb (d_isret nxt)) eqn:Er.
             ++ destruct (check_inner_refs _ _ _); [|intros Hx; discriminate Hx]. intros [= <- <-].
                apply Hstop. left. split; [discriminate|]. split; [reflexivity|]. cbn [stop_pos]. rewrite Ec, Er. reflexivity.
             ++ apply Hstep. cbn [stop_pos]. rewrite Ec, Er. reflexivity.
        * apply Hstep. cbn [stop_pos]. rewrite Ec. reflexivity.
  Qed.

  (* ------------------------------------------------------------------ the stop position is a fixed point *)
  Lemma stop_gt is : forall pos least p, Forall wf_ins is -> stop_pos is pos least = Some p -> pos < p.
  Proof.
    induction is as [|i rest IH]; intros pos least p Hwf; cbn [stop_pos]; [discriminate|].
    inversion Hwf as [|? ? Hi Hrest]; subst. pose proof (d_len_pos i Hi) as Hl.
    destruct ((least >? 0) && (pos + d_len i >=? least)).
    - destruct rest as [|nxt r]; [discriminate|]. destruct (negb (d_isret nxt)).
      + intros [= <-]. lia.
      + intros H. apply IH in H; [lia|exact Hrest].
    - intros H. apply IH in H; [lia|exact Hrest].
  Qed.

  Lemma stop_ge is : forall pos least p, 0 < least -> stop_pos is pos least = Some p -> least <= p.
  Proof.
    induction is as [|i rest IH]; intros pos least p Hl; cbn [stop_pos]; [discriminate|].
    destruct ((least >? 0) && (pos + d_len i >=? least)) eqn:Ec.
    - destruct rest as [|nxt r]; [discriminate|]. destruct (negb (d_isret nxt)).
      + intros [= <-]. apply andb_true_iff in Ec. lia.
      + apply IH. exact Hl.
    - apply IH. exact Hl.
  Qed.

  Lemma stop_idem is : forall pos least p, Forall wf_ins is -> 0 < least ->
    stop_pos is pos least = Some p -> stop_pos is pos p = Some p.
  Proof.
    induction is as [|i rest IH]; intros pos least p Hwf Hl; cbn [stop_pos]; [discriminate|].
    inversion Hwf as [|? ? Hi Hrest]; subst.
    destruct ((least >? 0) && (pos + d_len i >=? least)) eqn:Ec.
    - destruct rest as [|nxt r]; [discriminate|]. destruct (negb (d_isret nxt)) eqn:Er.
      + intros [= <-]. apply andb_true_iff in Ec.
        replace ((pos + d_len i >? 0) && (pos + d_len i >=? pos + d_len i)) with true by (symmetry; apply andb_true_iff; lia).
        reflexivity.
      + intros H. pose proof (stop_gt _ _ _ _ Hrest H) as Hgt.
        replace ((p >? 0) && (pos + d_len i >=? p)) with false by (symmetry; apply andb_false_iff; lia).
        apply (IH _ least); assumption.
    - intros H. pose proof (stop_ge _ _ _ _ Hl H) as Hge.
      assert (pos + d_len i < p).
      { apply andb_false_iff in Ec. destruct Ec as [Ec|Ec]; [lia|]. lia. }
      replace ((p >? 0) && (pos + d_len i >=? p)) with false by (symmetry; apply andb_false_iff; lia).
      apply (IH _ least); assumption.
  Qed.

  (* ------------------------------------------------------------------ checkJumpBetween *)
  (* positions of the instructions of a stream *)
  Fixpoint no_jump_into (is : list dins) (pos to fs : Z) : Prop :=
    match is with
    | [] => True
    | i :: rest =>
        pos > fs \/
        ((0 < d_w i -> ~ (0 < d_disp i + pos + d_len i < to)) /\ no_jump_into rest (pos + d_len i) to fs)
    end.

  Lemma check_jump_between_sound is : forall pos to fs,
    check_jump_between is pos to fs = FOk tt -> no_jump_into is pos to fs.
  Proof.
    induction is as [|i rest IH]; intros pos to fs; cbn [check_jump_between no_jump_into]; [auto|].
    destruct (pos >? fs) eqn:E1; [intros _; left; lia|].
    destruct (d_bad i); [intros Hx; discriminate Hx|].
    destruct (d_w i <=? 0) eqn:E2.
    - intros H. right. split; [lia|]. apply IH. exact H.
    - destruct ((d_disp i + pos + d_len i <? to) && (d_disp i + pos + d_len i >? 0)) eqn:E3; [intros Hx; discriminate Hx|].
      intros H. right. split; [|apply IH; exact H]. intros _ Hc. apply andb_false_iff in E3. lia.
  Qed.

  (* ------------------------------------------------------------------ fixRelativeAddr *)
  Theorem fix_relative_addr_faithful is from tramp fs data size :
    Forall wf_ins is ->
    - 2 ^ 31 + 4 * Z.of_nat (length is) <= from - tramp ->
    from - tramp + 12 * Z.of_nat (length is) < 2 ^ 31 ->
    fix_relative_addr op_expand is from tramp fs 13 = FOk (data, size) ->
    exists pre rest,
      is = pre ++ rest /\
      reloc (from - tramp) size pre 0 0 data /\
      no_jump_into is 0 size fs /\
      (stop_pos is 0 13 <> None -> rest <> [] /\ size = sum_len pre /\ 13 <= size).
  Proof.
    intros Hwf Hlo Hhi. unfold fix_relative_addr.
    assert (Hd : wraps 64 (from - tramp) = from - tramp).
    { apply wraps_small; [lia|]. change (2 ^ (64 - 1)) with 9223372036854775808. change (2 ^ 31) with 2147483648 in *. lia. }
    rewrite Hd.
    destruct (fix_block is 0 [] [] [] 13 fs (from - tramp)) as [[d1 n1]| |] eqn:E1; try (intros Hx; discriminate Hx).
    destruct (check_jump_between is 0 n1 fs) as [[]| |] eqn:E2; try (intros Hx; discriminate Hx).
    destruct (fix_block is 0 [] [] [] n1 n1 (from - tramp)) as [[d2 n2]| |] eqn:E3; try (intros Hx; discriminate Hx).
    intros [= <- <-].
    assert (Hlo0 : - 2 ^ 31 <= from - tramp - (lenZ (@nil Z) - 0) - 4 * Z.of_nat (length is)) by (unfold lenZ; cbn [length Z.of_nat]; lia).
    assert (Hhi0 : from - tramp - (lenZ (@nil Z) - 0) + 12 * Z.of_nat (length is) < 2 ^ 31) by (unfold lenZ; cbn [length Z.of_nat]; lia).
    destruct (fix_block_reloc is 0 [] [] [] 13 fs (from - tramp) d1 n1 Hwf Hlo0 Hhi0 E1) as (pre1 & rest1 & bs1 & _ & _ & _ & Hn1).
    destruct (fix_block_reloc is 0 [] [] [] n1 n1 (from - tramp) d2 n2 Hwf Hlo0 Hhi0 E3) as (pre2 & rest2 & bs2 & He2 & Hd2 & Hr2 & Hn2).
    exists pre2, rest2. split; [exact He2|]. split; [simpl in Hd2; subst d2; exact Hr2|].
    split; [apply check_jump_between_sound; exact E2|].
    intros Hsome. destruct Hn1 as [(_ & _ & Hs1)|(_ & _ & Hs1)]; [|contradiction].
    assert (H013 : 0 < 13) by lia.
    pose proof (stop_ge is 0 13 n1 H013 Hs1) as H13.
    pose proof (stop_idem is 0 13 n1 Hwf H013 Hs1) as Hs2.
    destruct Hn2 as [(Hne & Hn & Hs)|(_ & _ & Hs)]; [|congruence].
    rewrite Hs2 in Hs. injection Hs as Hs. split; [exact Hne|]. split; lia.
  Qed.

  (* ------------------------------------------------------------------ what the new bytes mean to the processor *)
  Lemma disp_roundtrip w d : (w = 1 \/ w = 4) -> in_s (8 * w) d -> wraps (8 * w) (le (disp_bytes w d)) = d.
  Proof.
    intros Hw Hin. unfold disp_bytes. rewrite le_bytes_le.
    assert (Hp : 256 ^ Z.of_nat (Z.to_nat w) = 2 ^ (8 * w)).
    { destruct Hw as [-> | ->]; reflexivity. }
    rewrite Hp. unfold wrapu. rewrite Z.mod_mod by (destruct Hw as [-> | ->]; discriminate).
    fold (wrapu (8 * w) d).
    apply wraps_unique; [destruct Hw as [-> | ->]; lia|exact Hin|].
    apply wrapu_cong. destruct Hw as [-> | ->]; lia.
  Qed.

  (* a moved instruction, executed at its new place, addresses exactly what the original addressed *)
  Corollary moved_same_target delta i pos np ops' w' d' from tramp :
    delta = from - tramp -> moved delta i pos np ops' w' d' ->
    (tramp + np + (lenZ ops' + w' + lenZ (d_post i))) + wraps (8 * w') (le (disp_bytes w' d'))
    = (from + pos + d_len i) + d_disp i.
  Proof.
    intros -> (Hin & Hw & Heq & _). rewrite (disp_roundtrip w' d' Hw Hin). lia.
  Qed.
End Facts.

(* the side condition on the expansion table, as a computation *)
Definition expand_small_b (tbl : list (Z * list Z)) : bool := forallb (fun kv => lenZ (snd kv) <=? 2) tbl.
Lemma expand_small_sound tbl : expand_small_b tbl = true ->
  forall k v, lookup_expand tbl k = Some v -> lenZ v <= 2.
Proof.
  unfold expand_small_b. induction tbl as [|[k' v'] r IH]; simpl; intros H k v; [discriminate|].
  apply andb_true_iff in H. destruct H as [H1 H2]. destruct (k =? k').
  - intros [= <-]. lia.
  - apply IH. exact H2.
Qed.

Lemma check_inner_refs_sound refs pm copied :
  check_inner_refs refs pm copied = true ->
  Forall (fun r => let '(old_end, tgt, new_end) := r in
                   tgt > copied \/ exists nt, pm_lookup pm tgt = Some nt /\ nt - new_end = tgt - old_end) refs.
Proof.
  unfold check_inner_refs. intros H. apply Forall_forall. intros [[oe t] ne] Hin.
  rewrite forallb_forall in H. specialize (H _ Hin). cbn in H.
  destruct (t >? copied) eqn:E; [left; lia|]. right.
  destruct (pm_lookup pm t) as [nt|]; [|discriminate]. exists nt. split; [reflexivity|lia].
Qed.
