From Coq Require Import List ZArith Bool Arith Lia.
From Goom Require Import Model.VarLayout.
Import ListNotations.
Open Scope Z_scope.

Lemma firstn_overwrite ws : forall mem, firstn (length ws) (overwrite mem ws) = ws.
Proof.
  induction ws as [|w ws IH]; intros mem; [destruct mem; reflexivity|].
  destruct mem as [|m mem]; cbn [overwrite length firstn]; rewrite IH; reflexivity.
Qed.

Lemma stored_length st v : wf_value v -> (st = SIface \/ st = v_class v) -> length (stored st v) = words st.
Proof.
  intros [Hc Hl] [->| ->]; [reflexivity|].
  unfold stored. destruct (v_class v) eqn:E; try exact Hl. exfalso. apply Hc. reflexivity.
Qed.

(* by pointer: every reader observes the value, for every static type the value can be assigned to *)
Lemma by_pointer_exact st mem v :
  wf_value v -> (st = SIface \/ st = v_class v) -> read st (set_by_pointer st mem v) = stored st v.
Proof.
  intros Hw Hst. unfold read, set_by_pointer. rewrite <- (stored_length st v Hw Hst). apply firstn_overwrite.
Qed.

(* by name: exact whenever the variable's static type IS the value's dynamic type (goom's documented precondition) *)
Lemma by_name_exact_same_type mem v :
  wf_value v -> read (v_class v) (set_by_name mem v) = stored (v_class v) v.
Proof.
  intros [Hc Hl]. unfold read, set_by_name. rewrite <- Hl.
  replace (stored (v_class v) v) with (v_rep v); [apply firstn_overwrite|].
  unfold stored. destruct (v_class v) eqn:E; try reflexivity. exfalso. apply Hc. reflexivity.
Qed.

(* ... and wrong for a variable of interface type holding a one-word value: the reader finds the value's
   representation where the type word belongs, and the old data word *)
Lemma by_name_interface_wrong t0 d0 v :
  wf_value v -> v_class v = SWord -> read SIface (set_by_name [t0; d0] v) = v_rep v ++ [d0].
Proof.
  intros [_ Hl] Hc. rewrite Hc in Hl. unfold read, set_by_name.
  destruct (v_rep v) as [|w [|w' r]]; try discriminate Hl. reflexivity.
Qed.

Lemma by_name_interface_refuted :
  exists (mem : list Z) (v : value), wf_value v /\ length mem = words SIface /\
    read SIface (set_by_name mem v) <> stored SIface v.
Proof.
  exists [100; 200], {| v_tyword := 7; v_class := SWord; v_rep := [43]; v_ifdata := 900 |}.
  split; [split; [discriminate|reflexivity]|]. split; [reflexivity|]. vm_compute. discriminate.
Qed.
