(* C14 proofs about WriteTo: frame, exact page set, final permissions, executability throughout. *)
From Goom Require Import Base.MachineInt Model.WriteTo.
From Coq Require Import ZifyBool.
Open Scope Z_scope.

(* ---------- the copy ---------- *)
Lemma write_bytes_spec d : forall f a x,
  write_bytes f a d x = if (a <=? x) && (x <? a + lenZ d) then nth (Z.to_nat (x - a)) d 0 else f x.
Proof.
  unfold lenZ. induction d as [|b r IH]; intros f a x; cbn [write_bytes length].
  - destruct ((a <=? x) && (x <? a + Z.of_nat 0)) eqn:E; [lia | reflexivity].
  - rewrite IH. rewrite Nat2Z.inj_succ.
    destruct (Z.eq_dec x a) as [->|Hne].
    + assert (E1 : (a + 1 <=? a) && (a <? a + 1 + Z.of_nat (length r)) = false) by lia.
      assert (E2 : (a <=? a) && (a <? a + Z.succ (Z.of_nat (length r))) = true) by lia.
      rewrite E1, E2, Z.eqb_refl, Z.sub_diag. reflexivity.
    + assert (En : (x =? a) = false) by lia. rewrite En.
      destruct ((a + 1 <=? x) && (x <? a + 1 + Z.of_nat (length r))) eqn:E1.
      * assert (E2 : (a <=? x) && (x <? a + Z.succ (Z.of_nat (length r))) = true) by lia. rewrite E2.
        replace (Z.to_nat (x - a)) with (S (Z.to_nat (x - (a + 1)))) by lia. reflexivity.
      * assert (E2 : (a <=? x) && (x <? a + Z.succ (Z.of_nat (length r))) = false) by lia. rewrite E2. reflexivity.
Qed.

(* ---------- the page loop ---------- *)
Lemma pages_from_spec ps : 0 < ps -> forall fuel p bound q,
  In q (pages_from fuel ps p bound) <-> exists k : nat, (k < fuel)%nat /\ q = p + Z.of_nat k * ps /\ q < bound.
Proof.
  intros Hps. induction fuel as [|f IH]; intros p bound q; cbn [pages_from].
  - split; [intros [] | intros [k [Hk _]]; lia].
  - destruct (p <? bound) eqn:E.
    + cbn [In]. rewrite IH. split.
      * intros [<-|[k (Hk & Hq & Hb)]].
        -- exists 0%nat. repeat split; lia.
        -- exists (S k). rewrite Nat2Z.inj_succ. repeat split; lia.
      * intros [k (Hk & Hq & Hb)]. destruct k as [|k].
        -- left. lia.
        -- right. exists k. rewrite Nat2Z.inj_succ in Hq. repeat split; lia.
    + split; [intros [] |]. intros [k (Hk & Hq & Hb)]. assert (0 <= Z.of_nat k * ps) by nia. lia.
Qed.

Lemma page_start_bounds ps a : 0 < ps -> page_start ps a <= a < page_start ps a + ps /\ page_start ps a mod ps = 0.
Proof.
  intros H. unfold page_start. pose proof (Z.mod_pos_bound a ps H). split; [lia|].
  rewrite Zminus_mod, Z.mod_mod, Z.sub_diag by lia. reflexivity.
Qed.

(* pages touched = page_start(addr) + k*ps, k >= 0, below addr+len: exactly the pages from the one holding addr
   up to the one holding the last byte; nothing beyond *)
Theorem pages_exact ps addr len q :
  0 < ps -> 0 <= len ->
  (In q (pages_of ps addr len) <-> exists k : nat, q = page_start ps addr + Z.of_nat k * ps /\ q < addr + len).
Proof.
  intros Hps Hlen. unfold pages_of. rewrite (pages_from_spec ps Hps). split.
  - intros [k (Hk & Hq & Hb)]. exists k. split; assumption.
  - intros [k (Hq & Hb)]. exists k. repeat split; try assumption.
    destruct (page_start_bounds ps addr Hps) as [[H1 H2] _].
    assert (Hk : Z.of_nat k * ps < len + ps) by lia.
    assert (Hd : Z.of_nat k < len / ps + 2).
    { pose proof (Z.div_mod len ps ltac:(lia)). pose proof (Z.mod_pos_bound len ps Hps). nia. }
    pose proof (Z.div_pos len ps Hlen Hps). lia.
Qed.

Corollary pages_within_range ps addr len q :
  0 < ps -> 0 <= len -> In q (pages_of ps addr len) ->
  q mod ps = 0 /\ page_start ps addr <= q /\ q < addr + len.
Proof.
  intros Hps Hlen Hin. apply (pages_exact ps addr len q Hps Hlen) in Hin as [k [-> Hb]].
  destruct (page_start_bounds ps addr Hps) as [_ Hm]. repeat split; try assumption.
  - rewrite Z.mod_add by lia. exact Hm.
  - nia.
Qed.

Corollary no_page_for_empty_aligned_write ps addr :
  0 < ps -> addr mod ps = 0 -> pages_of ps addr 0 = [].
Proof.
  intros Hps Ha. destruct (pages_of ps addr 0) as [|q l] eqn:E; [reflexivity|].
  assert (Hin : In q (pages_of ps addr 0)) by (rewrite E; now left).
  apply (pages_exact ps addr 0 q Hps ltac:(lia)) in Hin as [k [Hq Hb]].
  unfold page_start in Hq. rewrite Ha in Hq. nia.
Qed.

(* ---------- running the steps ---------- *)
Lemma run_mprots m pages prot :
  bytes (run_steps m (map (fun p => Mprot p prot) pages)) = bytes m /\
  (forall q, perms (run_steps m (map (fun p => Mprot p prot) pages)) q =
             if existsb (fun p => q =? p) pages then perm_of prot else perms m q).
Proof.
  revert m; induction pages as [|p r IH]; intros m; cbn [map run_steps fold_left existsb].
  - split; reflexivity.
  - destruct (IH (apply_step m (Mprot p prot))) as [Hb Hp]. unfold run_steps in *. split.
    + rewrite Hb. reflexivity.
    + intros q. rewrite Hp. cbn [apply_step perms].
      destruct (existsb (fun p0 => q =? p0) r); [now rewrite orb_true_r|]. rewrite orb_false_r. reflexivity.
Qed.

Lemma run_steps_app m a b : run_steps m (a ++ b) = run_steps (run_steps m a) b.
Proof. unfold run_steps. apply fold_left_app. Qed.

Lemma existsb_pages q pages : existsb (fun p => q =? p) pages = true <-> In q pages.
Proof.
  rewrite existsb_exists. split.
  - intros [p [Hin He]]. apply Z.eqb_eq in He. now subst.
  - intros H. exists q. split; [exact H | apply Z.eqb_refl].
Qed.

(* MAIN 1: exactly the bytes of [addr, addr+len) change, and they become the data *)
Theorem write_frame ps m addr data x :
  bytes (write_to ps m addr data) x =
  if (addr <=? x) && (x <? addr + lenZ data) then nth (Z.to_nat (x - addr)) data 0 else bytes m x.
Proof.
  unfold write_to, steps_of, writeto_shape. cbn [flat_map]. rewrite app_nil_r.
  rewrite !run_steps_app.
  destruct (run_mprots m (pages_of ps addr (lenZ data)) 7) as [Hb1 _].
  set (m1 := run_steps m _) in *.
  set (m2 := run_steps m1 [Copy addr data]).
  destruct (run_mprots m2 (pages_of ps addr (lenZ data)) 5) as [Hb3 _].
  rewrite Hb3. unfold m2, run_steps. cbn [fold_left apply_step bytes].
  rewrite write_bytes_spec, Hb1. reflexivity.
Qed.

(* MAIN 2: afterwards every touched page is r-x and not writable; every other page keeps its permissions *)
Theorem final_rx ps m addr data q :
  perms (write_to ps m addr data) q =
  if existsb (fun p => q =? p) (pages_of ps addr (lenZ data)) then {| p_r := true; p_w := false; p_x := true |}
  else perms m q.
Proof.
  unfold write_to, steps_of, writeto_shape. cbn [flat_map]. rewrite app_nil_r.
  rewrite !run_steps_app.
  destruct (run_mprots m (pages_of ps addr (lenZ data)) 7) as [_ Hp1].
  set (m1 := run_steps m _) in *.
  set (m2 := run_steps m1 [Copy addr data]).
  destruct (run_mprots m2 (pages_of ps addr (lenZ data)) 5) as [_ Hp3].
  rewrite Hp3. destruct (existsb _ _) eqn:E; [reflexivity|].
  unfold m2, run_steps. cbn [fold_left apply_step perms]. rewrite Hp1, E. reflexivity.
Qed.

(* MAIN 3: in every intermediate state, a page that was executable still is *)
Definition only_exec_prots (ss : list wstep) : Prop :=
  Forall (fun s => match s with Mprot _ prot => p_x (perm_of prot) = true | Copy _ _ => True end) ss.

Lemma trace_exec ss : only_exec_prots ss -> forall m mi q,
  In mi (trace m ss) -> p_x (perms m q) = true -> p_x (perms mi q) = true.
Proof.
  induction ss as [|s r IH]; intros Hok m mi q Hin Hx; cbn [trace] in Hin.
  - destruct Hin as [<-|[]]. exact Hx.
  - destruct Hin as [<-|Hin]; [exact Hx|]. inversion Hok; subst.
    apply (IH H2 (apply_step m s) mi q Hin).
    destruct s as [p prot|a d]; cbn [apply_step perms]; [|exact Hx].
    destruct (q =? p); [exact H1 | exact Hx].
Qed.

Theorem always_exec ps m addr data mi q :
  In mi (trace m (steps_of ps addr data writeto_shape)) -> p_x (perms m q) = true -> p_x (perms mi q) = true.
Proof.
  apply trace_exec. unfold only_exec_prots, steps_of, writeto_shape. cbn [flat_map]. rewrite app_nil_r.
  apply Forall_app. split; [|apply Forall_app; split].
  - apply Forall_forall. intros s Hs. apply in_map_iff in Hs as [p [<- _]]. reflexivity.
  - constructor; [exact I | constructor].
  - apply Forall_forall. intros s Hs. apply in_map_iff in Hs as [p [<- _]]. reflexivity.
Qed.

(* no step of WriteTo touches a byte outside [addr, addr+len), in ANY intermediate state *)
Theorem intermediate_frame ps m addr data mi x :
  In mi (trace m (steps_of ps addr data writeto_shape)) ->
  ~ (addr <= x < addr + lenZ data) -> bytes mi x = bytes m x.
Proof.
  intros Hin Hout.
  assert (G : forall ss m0, Forall (fun s => match s with Mprot _ _ => True | Copy a d => a = addr /\ d = data end) ss ->
              forall mi0, In mi0 (trace m0 ss) -> bytes mi0 x = bytes m0 x).
  { induction ss as [|s r IH]; intros m0 Hf mi0 Hi; cbn [trace] in Hi.
    - destruct Hi as [<-|[]]. reflexivity.
    - destruct Hi as [<-|Hi]; [reflexivity|]. inversion Hf; subst.
      rewrite (IH (apply_step m0 s) H2 mi0 Hi).
      destruct s as [p prot|a d]; cbn [apply_step bytes]; [reflexivity|].
      destruct H1 as [-> ->]. rewrite write_bytes_spec.
      destruct ((addr <=? x) && (x <? addr + lenZ data)) eqn:E; [lia | reflexivity]. }
  apply (G (steps_of ps addr data writeto_shape) m); [|exact Hin].
  unfold steps_of, writeto_shape. cbn [flat_map]. rewrite app_nil_r.
  apply Forall_app. split; [|apply Forall_app; split].
  - apply Forall_forall. intros s Hs. apply in_map_iff in Hs as [p [<- _]]. exact I.
  - constructor; [split; reflexivity | constructor].
  - apply Forall_forall. intros s Hs. apply in_map_iff in Hs as [p [<- _]]. exact I.
Qed.

(* ---- the fallback writer: same bytes, same final protections ... ---- *)
Theorem fallback_write_frame ps m addr data x :
  bytes (write_to_fallback ps m addr data) x =
  if (addr <=? x) && (x <? addr + lenZ data) then nth (Z.to_nat (x - addr)) data 0 else bytes m x.
Proof.
  unfold write_to_fallback, steps_of, fallback_shape. cbn [flat_map]. rewrite app_nil_r.
  rewrite !run_steps_app.
  destruct (run_mprots m (pages_of ps addr (lenZ data)) 3) as [Hb1 _].
  set (m1 := run_steps m _) in *.
  set (m2 := run_steps m1 [Copy addr data]).
  destruct (run_mprots m2 (pages_of ps addr (lenZ data)) 5) as [Hb3 _].
  rewrite Hb3. unfold m2, run_steps. cbn [fold_left apply_step bytes].
  rewrite write_bytes_spec, Hb1. reflexivity.
Qed.

Theorem fallback_final_rx ps m addr data q :
  perms (write_to_fallback ps m addr data) q =
  if existsb (fun p => q =? p) (pages_of ps addr (lenZ data)) then {| p_r := true; p_w := false; p_x := true |}
  else perms m q.
Proof.
  unfold write_to_fallback, steps_of, fallback_shape. cbn [flat_map]. rewrite app_nil_r.
  rewrite !run_steps_app.
  destruct (run_mprots m (pages_of ps addr (lenZ data)) 3) as [_ Hp1].
  set (m1 := run_steps m _) in *.
  set (m2 := run_steps m1 [Copy addr data]).
  destruct (run_mprots m2 (pages_of ps addr (lenZ data)) 5) as [_ Hp3].
  rewrite Hp3. destruct (existsb _ _) eqn:E; [reflexivity|].
  unfold m2, run_steps. cbn [fold_left apply_step perms]. rewrite Hp1, E. reflexivity.
Qed.

(* ... but NOT "executable throughout": between its two protection passes the covered pages are not executable *)
Definition fb_m0 : mem := {| bytes := fun _ => 204; perms := fun _ => perm_of 5 |}.
Theorem fallback_drops_exec_refuted :
  exists ps m addr data mi q,
    In mi (trace m (steps_of ps addr data fallback_shape)) /\ p_x (perms m q) = true /\ p_x (perms mi q) = false.
Proof.
  exists 4096, fb_m0, 8190, [1; 2; 3], (nth 1 (trace fb_m0 (steps_of 4096 8190 [1; 2; 3] fallback_shape)) fb_m0), 4096.
  split; [|split; vm_compute; reflexivity].
  apply nth_In. vm_compute. repeat constructor.
Qed.

