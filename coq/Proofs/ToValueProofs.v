(* C09 -- proofs about Model/ToValue.v *)
From Coq Require Import List ZArith Bool Arith Lia.
From Goom Require Import Model.ToValue.
Import ListNotations.
Open Scope Z_scope.

Lemma kind_eqb_eq a b : kind_eqb a b = true <-> a = b.
Proof. destruct a, b; simpl; split; intros H; try reflexivity; discriminate. Qed.

Lemma kind_eqb_refl a : kind_eqb a a = true.
Proof. destruct a; reflexivity. Qed.

Section Facts.
  Variable icontext_id : Z.
  Variable assignable : gtype -> gtype -> bool.
  Local Notation to_value := (to_value icontext_id assignable).
  Local Notation i2v := (i2v icontext_id assignable).
  Local Notation convert_all := (convert_all icontext_id assignable).

  Definition is_icontext (t : gtype) : bool := kind_eqb (t_kind t) KPtr && (t_id t =? icontext_id).

  (* nil becomes the typed zero value for every nilable result kind *)
  Theorem nil_zero out : nilable (t_kind out) = true -> to_value None out = Ok (RZero out).
  Proof. unfold to_value. destruct (t_kind out); simpl; intros H; try discriminate; reflexivity. Qed.

  (* ... and is refused (never turned into some other value) for the others *)
  Theorem nil_other out : nil_ok (t_kind out) = false -> to_value None out = Panic.
  Proof. unfold to_value. intros H. rewrite H. reflexivity. Qed.

  (* a value of the declared type is delivered unaltered *)
  Theorem unaltered v out :
    ty_eqb (v_ty v) out = true -> t_kind (v_ty v) = t_kind out -> t_size (v_ty v) = t_size out ->
    is_icontext out = false -> t_kind out <> KIface ->
    to_value (Some v) out = Ok (RVal out (v_payload v) (v_nil v)).
  Proof.
    intros He Hk Hs Hic Hni. unfold to_value. rewrite He. simpl.
    unfold is_icontext in Hic. rewrite Hk.
    assert (Hid : t_id (v_ty v) = t_id out) by (apply Z.eqb_eq; exact He). rewrite Hid, Hic.
    destruct (kind_eqb (t_kind out) KIface) eqn:E; [apply kind_eqb_eq in E; contradiction|].
    rewrite Hs, Z.eqb_refl. simpl.
    destruct v as [[i k s] p n]; destruct out as [i' k' s']; simpl in *. subst. reflexivity.
  Qed.

  (* concrete values are boxed into interface results with their dynamic type intact *)
  Theorem boxing v out :
    t_kind out = KIface -> ty_eqb (v_ty v) out = false -> is_icontext (v_ty v) = false -> assignable (v_ty v) out = true ->
    to_value (Some v) out = Ok (RBoxed out (v_ty v) (v_payload v) (v_nil v)).
  Proof.
    intros Hk He Hic Ha. unfold to_value. rewrite He, Hk. simpl. unfold is_icontext in Hic. rewrite Hic.
    rewrite He, Ha. reflexivity.
  Qed.

  Theorem boxing_refused v out :
    t_kind out = KIface -> ty_eqb (v_ty v) out = false -> assignable (v_ty v) out = false ->
    exists o, to_value (Some v) out = o /\ (o = Panic).
  Proof.
    intros Hk He Ha. unfold to_value. rewrite He, Hk. simpl.
    destruct (kind_eqb (t_kind (v_ty v)) KPtr && (t_id (v_ty v) =? icontext_id)); [eexists; split; reflexivity|].
    rewrite He, Ha. eexists; split; reflexivity.
  Qed.

  (* a struct / struct pointer of identical size stands in: retyped to the declared type, data kept *)
  Theorem standin v out :
    struct_or_ptr (t_kind out) = true -> ty_eqb (v_ty v) out = false -> t_size (v_ty v) = t_size out ->
    is_icontext out = false ->
    to_value (Some v) out = Ok (RVal out (v_payload v) (v_nil v)).
  Proof.
    intros Hk He Hs Hic. unfold to_value. rewrite He, Hk, Hs, Z.eqb_refl. simpl.
    unfold is_icontext in Hic. rewrite Hic.
    destruct (t_kind out); simpl in Hk; try discriminate; simpl; rewrite Z.eqb_refl; reflexivity.
  Qed.

  (* a value whose size differs from the declared (non-interface) type is rejected, never reinterpreted *)
  Theorem size_mismatch v out :
    t_kind out <> KIface -> t_size (v_ty v) <> t_size out ->
    forall r, to_value (Some v) out <> Ok r.
  Proof.
    intros Hk Hs r. unfold to_value.
    destruct (t_size (v_ty v) =? t_size out) eqn:Es; [apply Z.eqb_eq in Es; contradiction|].
    destruct (negb (ty_eqb (v_ty v) out) && struct_or_ptr (t_kind out)) eqn:Ec; simpl; [discriminate|].
    destruct (kind_eqb (t_kind (v_ty v)) KPtr && (t_id (v_ty v) =? icontext_id)); [discriminate|].
    destruct (kind_eqb (t_kind out) KIface) eqn:E; [apply kind_eqb_eq in E; contradiction|].
    rewrite Es. simpl. discriminate.
  Qed.

  (* whatever is accepted has the declared type, or is a same-size value of another type that reflect refuses at call time *)
  Theorem accepted_typed r out res :
    to_value r out = Ok res ->
    ty_eqb (rtype res) out = true \/
    (t_size (rtype res) = t_size out /\ struct_or_ptr (t_kind out) = false /\ t_kind out <> KIface).
  Proof.
    unfold to_value. destruct r as [v|].
    - destruct (negb (ty_eqb (v_ty v) out) && struct_or_ptr (t_kind out)) eqn:Ec; simpl.
      + destruct (negb (t_size (v_ty v) =? t_size out)); [discriminate|].
        destruct (kind_eqb (t_kind out) KPtr && (t_id out =? icontext_id)); [discriminate|].
        destruct (kind_eqb (t_kind out) KIface) eqn:Ei.
        * destruct (ty_eqb out out || assignable out out); [|discriminate].
          intros H; inversion H; subst. left. unfold ty_eqb. simpl. apply Z.eqb_refl.
        * rewrite Z.eqb_refl. simpl. intros H; inversion H; subst. left. unfold ty_eqb; simpl. apply Z.eqb_refl.
      + destruct (kind_eqb (t_kind (v_ty v)) KPtr && (t_id (v_ty v) =? icontext_id)); [discriminate|].
        destruct (kind_eqb (t_kind out) KIface) eqn:Ei.
        * destruct (ty_eqb (v_ty v) out || assignable (v_ty v) out); [|discriminate].
          intros H; inversion H; subst. left. unfold ty_eqb; simpl. apply Z.eqb_refl.
        * destruct (t_size (v_ty v) =? t_size out) eqn:Es; simpl; [|discriminate].
          intros H; inversion H; subst. simpl.
          destruct (ty_eqb (v_ty v) out) eqn:Ee; [left; reflexivity|]. right. simpl in Ec.
          split; [apply Z.eqb_eq; exact Es|]. split; [exact Ec|].
          intros K. rewrite K in Ei. discriminate.
    - destruct (nil_ok (t_kind out)); [|discriminate]. intros H; inversion H; subst. left. unfold ty_eqb; simpl. apply Z.eqb_refl.
  Qed.

  (* the caller never receives a value of a type other than the declared one *)
  Theorem delivered_typed res out g : deliver res out = Got g -> g = res /\ ty_eqb (rtype g) out = true.
  Proof. unfold deliver. destruct (ty_eqb (rtype res) out) eqn:E; [|discriminate]. intros H; inversion H; subst. auto. Qed.

  (* and what it receives carries exactly the supplied data *)
  Definition payload_of (r : rvalue) : option (Z * bool) :=
    match r with RZero _ => None | RVal _ p n => Some (p, n) | RBoxed _ _ p n => Some (p, n) end.
  Theorem data_unaltered v out res : to_value (Some v) out = Ok res -> payload_of res = Some (v_payload v, v_nil v).
  Proof.
    unfold to_value.
    destruct (negb (ty_eqb (v_ty v) out) && struct_or_ptr (t_kind out) && negb (t_size (v_ty v) =? t_size out)); [discriminate|].
    match goal with |- (if ?c then _ else _) = _ -> _ => destruct c end; [discriminate|].
    destruct (kind_eqb (t_kind out) KIface).
    - match goal with |- (if ?c then _ else _) = _ -> _ => destruct c end; [|discriminate]. intros H; inversion H; reflexivity.
    - match goal with |- (if ?c then _ else _) = _ -> _ => destruct c end; [discriminate|]. intros H; inversion H; reflexivity.
  Qed.
  Theorem boxed_dyn_intact v out ity dyn p n :
    to_value (Some v) out = Ok (RBoxed ity dyn p n) ->
    ity = out /\ (dyn = v_ty v \/ (dyn = out /\ struct_or_ptr (t_kind out) = true)).
  Proof.
    unfold to_value.
    destruct (negb (ty_eqb (v_ty v) out) && struct_or_ptr (t_kind out)) eqn:Ec; simpl.
    - destruct (negb (t_size (v_ty v) =? t_size out)); [discriminate|].
      match goal with |- (if ?c then _ else _) = _ -> _ => destruct c end; [discriminate|].
      destruct (kind_eqb (t_kind out) KIface).
      + match goal with |- (if ?c then _ else _) = _ -> _ => destruct c end; [|discriminate]. intros H; inversion H; subst.
        split; [reflexivity|]. right. split; [reflexivity|]. apply andb_true_iff in Ec. tauto.
      + match goal with |- (if ?c then _ else _) = _ -> _ => destruct c end; discriminate.
    - match goal with |- (if ?c then _ else _) = _ -> _ => destruct c end; [discriminate|].
      destruct (kind_eqb (t_kind out) KIface).
      + match goal with |- (if ?c then _ else _) = _ -> _ => destruct c end; [|discriminate]. intros H; inversion H; subst. auto.
      + match goal with |- (if ?c then _ else _) = _ -> _ => destruct c end; discriminate.
  Qed.

  (* V2I: a zero pointer / interface result maps back to untyped nil; everything else is handed back as is *)
  Theorem v2i_nil out : (t_kind out = KPtr \/ t_kind out = KIface) -> v2i_one (RZero out) out = BNil.
  Proof. unfold v2i_one. intros [H|H]; rewrite H; reflexivity. Qed.
  Theorem v2i_keeps r out : is_zero r = false -> v2i_one r out = BVal r.
  Proof. unfold v2i_one. intros H. rewrite H, andb_false_r. reflexivity. Qed.

  (* I2V: accepted exactly when the count fits and every position converts; the result has one value per object,
     each converted against the type of its own position *)
  Lemma convert_all_spec objs : forall tys vs,
    convert_all objs tys = inl (Some vs) ->
    length vs = length objs /\
    forall i o, nth_error objs i = Some o ->
      exists t v, nth_error tys i = Some (Some t) /\ nth_error vs i = Some v /\ to_value o t = Ok v.
  Proof.
    induction objs as [|o objs IH]; intros tys vs H; simpl in H.
    - inversion H; subst. split; [reflexivity|]. intros [|i] o' Hn; discriminate.
    - destruct tys as [|[t|] tys']; try discriminate.
      destruct (to_value o t) as [v| |] eqn:Et; try discriminate.
      destruct (convert_all objs tys') as [[vs'|]|b] eqn:Ec; try discriminate.
      inversion H; subst. destruct (IH tys' vs' Ec) as [Hl Hn]. split; [simpl; f_equal; exact Hl|].
      intros [|i] o' Ho; simpl in Ho.
      + inversion Ho; subst. exists t, v. simpl. auto.
      + simpl. apply Hn. exact Ho.
  Qed.

  Theorem i2v_accepts objs types el variadic vs :
    i2v objs types el variadic = inl (Some vs) ->
    arity_ok (length objs) (length types) variadic = true /\ length vs = length objs /\
    forall i o, nth_error objs i = Some o ->
      exists t v, type_at types el variadic i = Some t /\ nth_error vs i = Some v /\ to_value o t = Ok v.
  Proof.
    unfold i2v. destruct (arity_ok (length objs) (length types) variadic) eqn:Ea; simpl; [|discriminate].
    intros H. split; [reflexivity|]. destruct (convert_all_spec _ _ _ H) as [Hl Hn]. split; [exact Hl|].
    intros i o Ho. destruct (Hn i o Ho) as (t & v & Ht & Hv & Hc). exists t, v. split; [|auto].
    assert (Hi : (i < length objs)%nat) by (apply nth_error_Some; congruence).
    rewrite nth_error_map in Ht.
    rewrite (nth_error_nth' (seq 0 (length objs)) 0%nat) in Ht by (rewrite seq_length; exact Hi).
    rewrite seq_nth in Ht by exact Hi. simpl in Ht. inversion Ht. reflexivity.
  Qed.

  Theorem i2v_count_rejected objs types el variadic :
    arity_ok (length objs) (length types) variadic = false -> i2v objs types el variadic = inr false.
  Proof. unfold i2v. intros H. rewrite H. reflexivity. Qed.
End Facts.
