(* Shape-insensitive congruence tactic used by the Tie lemmas (Gen = Model). *)
From Goom Require Import Base.MachineInt Proofs.JumpEncProofs.
Open Scope Z_scope.

Lemma pow_split n m : 0 <= m <= n -> 2 ^ n = 2 ^ (n - m) * 2 ^ m.
Proof. intros. rewrite <- Z.pow_add_r by lia. f_equal. lia. Qed.

Lemma wrapu_congW n m x : 0 <= m <= n -> congM (2 ^ m) (wrapu n x) x.
Proof.
  intros H. apply (congM_weaken (2 ^ n)); [exists (2 ^ (n - m)); apply pow_split; lia|].
  apply wrapu_cong; lia.
Qed.

Lemma wraps_congW n m x : 0 <= m <= n -> 1 <= n -> congM (2 ^ m) (wraps n x) x.
Proof.
  intros H Hn. apply (congM_weaken (2 ^ n)); [exists (2 ^ (n - m)); apply pow_split; lia|].
  apply wraps_congM; lia.
Qed.

Lemma congM_mul M a b c d : congM M a b -> congM M c d -> congM M (a * c) (b * d).
Proof. intros [k ->] [j ->]. exists (k * d + j * b + k * j * M). ring. Qed.

Lemma by_cong_u m e t : 0 <= m -> congM (2 ^ m) e t -> wrapu m e = wrapu m t.
Proof. intros Hm Hc. unfold wrapu. apply congM_mod; [apply pow2_pos; lia | exact Hc]. Qed.

Lemma by_cong_s m e t : 1 <= m -> congM (2 ^ m) e t -> wraps m e = wraps m t.
Proof.
  intros Hm Hc. unfold wraps. f_equal.
  apply congM_mod; [apply pow2_pos; lia|]. apply congM_add; [exact Hc | apply congM_refl].
Qed.

(* solves  congM (2^m) e ?E  by stripping every wrap of width >= m from e *)
Ltac cstrip :=
  lazymatch goal with
  | |- congM (2 ^ ?m) (wrapu ?n ?x) _ =>
      eapply congM_trans; [apply (wrapu_congW n m x); lia | cstrip]
  | |- congM (2 ^ ?m) (wraps ?n ?x) _ =>
      eapply congM_trans; [apply (wraps_congW n m x); lia | cstrip]
  | |- congM _ (?a - ?b) _ => apply congM_sub; cstrip
  | |- congM _ (?a + ?b) _ => apply congM_add; cstrip
  | |- congM _ (?a * ?b) _ => apply congM_mul; cstrip
  | |- congM _ (- ?a) _ => apply congM_neg; cstrip
  | |- congM _ _ _ => apply congM_refl
  end.

(* goal: congM (2^m) e t  where e and t agree as ring expressions once wraps are stripped *)
Ltac cong_ring :=
  eapply congM_trans; [cstrip|];
  apply congM_sym; eapply congM_trans; [cstrip|];
  match goal with |- congM _ ?s ?t => replace s with t by ring; apply congM_refl end.

Ltac wrap_eq :=
  lazymatch goal with
  | |- wrapu ?m _ = wrapu ?m _ => apply by_cong_u; [lia | cong_ring]
  | |- wraps ?m _ = wraps ?m _ => apply by_cong_s; [lia | cong_ring]
  end.

Example wrap_eq_demo from to :
  wrapu 32 (wraps 32 (wraps 32 (wrapu 64 (to - from)) - 5)) = wrapu 32 (to - from - 5).
Proof. wrap_eq. Qed.

Example wrap_eq_demo2 from to :
  wrapu 32 (wraps 32 (wraps 32 (- wraps 32 (wrapu 64 (from - to))) - 5)) = wrapu 32 (to - from - 5).
Proof. wrap_eq. Qed.
