(* C16 -- soundness of the static analysis of the decoding program (Model/X86Abs.v): if the checker accepts a set of
   abstract states that contains the initial one, then for EVERY input the decoder never indexes out of range, never
   reports errInternal, stops within rank(initial)+1 iterations, a decoded instruction has Len >= 1 and a PC-relative
   field lies inside the instruction behind at least one byte. *)
From Goom Require Import Base.MachineInt Gen.X86Table Model.X86Len Model.X86Abs Proofs.X86LenProofs.
From Coq Require Import List ZArith Bool Lia ZifyBool FMapPositive.
Import ListNotations.
Open Scope Z_scope.

Definition Cons (a : ast) (s : st) : Prop :=
  pc s = apc a /\ narg s = anarg a /\ have_modrm s = ahm a /\ (agot a = true -> 1 <= pos s) /\
  (0 < aimw a -> 1 <= immcpos s /\ immcpos s + aimw a <= pos s).

Definition PInv (s : st) : Prop := pcrel s = 0 \/ (0 < pcreloff s /\ pcreloff s + pcrel s <= pos s).

Definition Good (r : result) : Prop :=
  match r with
  | RPanic | RFuel | RInternal _ => False
  | ROk len _ _ pr po => 1 <= len /\ (pr = 0 \/ (0 < po /\ po + pr <= len))
  | _ => True
  end.

Lemma truncated_good src : Good (truncated src).
Proof. unfold truncated. destruct src; exact I. Qed.

Lemma finish_good src s : PInv s -> (op s <> 0 -> 1 <= pos s) -> Good (finish src s).
Proof.
  intros HP Hg. unfold finish. destruct (op s =? 0) eqn:E; [destruct (nprefix s >? 0); exact I|].
  cbn. split; [apply Hg; lia|exact HP].
Qed.

Lemma fail_good src s r : PInv s -> fail src s = inr r -> Good r.
Proof. intros HP. unfold fail. intros [= <-]. apply finish_good; [exact HP|cbn; lia]. Qed.

(* ---------------------------------------------------------------- read_modrm: what it leaves alone *)
Lemma push_opcode_more s b : pc (push_opcode s b) = pc s /\ narg (push_opcode s b) = narg s.
Proof. unfold push_opcode. destruct (opshift s >=? 0); cbn; split; reflexivity. Qed.

Lemma read_modrm_facts src s s' :
  read_modrm src s = inl s' ->
  pc s' = pc s /\ narg s' = narg s /\ have_modrm s' = true /\ pos s + 1 <= pos s' /\ immcpos s' = immcpos s /\
  pcrel s' = pcrel s /\ pcreloff s' = pcreloff s.
Proof.
  unfold read_modrm. destruct (have_modrm s); [discriminate|]. destruct (pos s >=? lenZs src); [discriminate|].
  set (m := byte_at src (pos s)). set (s1 := push_opcode (set_pos s (pos s + 1)) m).
  destruct (push_opcode_fields (set_pos s (pos s + 1)) m) as (F1 & _ & _ & F4 & F5 & F6 & _).
  destruct (push_opcode_more (set_pos s (pos s + 1)) m) as (G1 & G2). fold s1 in F1, F4, F5, F6, G1, G2. cbn in F1, F4, F5, F6, G1, G2.
  set (need_sib := (Z.land m 7 =? 4) && negb (Z.shiftr m 6 =? 3)).
  destruct (need_sib && (pos s1 >=? lenZs src)); [discriminate|].
  set (s2 := if need_sib then push_opcode (set_pos s1 (pos s1 + 1)) (byte_at src (pos s1)) else s1).
  assert (H2 : pc s2 = pc s /\ narg s2 = narg s /\ pos s + 1 <= pos s2 /\ immcpos s2 = immcpos s /\ pcrel s2 = pcrel s /\ pcreloff s2 = pcreloff s).
  { unfold s2. destruct need_sib; [|repeat split; congruence || lia].
    destruct (push_opcode_fields (set_pos s1 (pos s1 + 1)) (byte_at src (pos s1))) as (K1 & _ & _ & K4 & K5 & K6 & _).
    destruct (push_opcode_more (set_pos s1 (pos s1 + 1)) (byte_at src (pos s1))) as (M1 & M2). cbn in K1, K4, K5, K6, M1, M2.
    repeat split; congruence || lia. }
  destruct H2 as (A1 & A2 & A3 & A4 & A5 & A6).
  match goal with |- (if ?c then _ else _) = _ -> _ => destruct c; [discriminate|] end.
  match goal with |- (if ?c then _ else _) = _ -> _ => destruct c; [discriminate|] end.
  intros [= <-]. cbn [pc narg have_modrm pos immcpos pcrel pcreloff].
  repeat split; try assumption.
  repeat match goal with |- context [if ?c then _ else _] => destruct c end; lia.
Qed.

Lemma read_modrm_good src s r : have_modrm s = false -> read_modrm src s = inr r -> Good r.
Proof.
  intros Hm. unfold read_modrm. rewrite Hm. destruct (pos s >=? lenZs src); [intros [= <-]; apply truncated_good|].
  repeat match goal with |- (if ?c then _ else _) = _ -> _ => destruct c; [intros [= <-]; apply truncated_good|] end.
  discriminate.
Qed.

Section Sound.
  Variable tbl : Z -> option Z.

  (* ---- the pair scans stay inside the abstract target list *)
  Lemma cond_byte_scan_sound n : forall p b l,
    pair_targets tbl n p = Some l ->
    match cond_byte_scan tbl n p b with
    | (Some (Some t), _) => In t l
    | (Some None, _) => False
    | (None, p') => p' = p + 2 * Z.of_nat n
    end.
  Proof.
    induction n as [|n IH]; intros p b l; cbn [pair_targets cond_byte_scan]; [intros _; lia|].
    destruct (tbl p) as [xb|]; [|discriminate]. destruct (tbl (p + 1)) as [xpc|]; [|discriminate].
    destruct (pair_targets tbl n (p + 2)) as [l'|] eqn:E; [|discriminate]. intros [= <-].
    destruct (b =? Z.land xb 255); [left; reflexivity|].
    specialize (IH (p + 2) b l' E). destruct (cond_byte_scan tbl n (p + 2) b) as [[[t|]|] p']; [right; exact IH|exact IH|lia].
  Qed.

  Lemma cond_prefix_scan_sound n : forall p s l,
    pair_targets tbl n p = Some l ->
    match cond_prefix_scan tbl n p s with
    | Some (inl t) => In t l
    | Some (inr _) => True
    | None => False
    end.
  Proof.
    induction n as [|n IH]; intros p s l; cbn [pair_targets cond_prefix_scan]; [intros _; exact I|].
    destruct (tbl p) as [pf|]; [|discriminate]. destruct (tbl (p + 1)) as [tg|]; [|discriminate].
    destruct (pair_targets tbl n (p + 2)) as [l'|] eqn:E; [|discriminate]. intros [= <-].
    assert (R : match cond_prefix_scan tbl n (p + 2) s with Some (inl t) => In t (tg :: l') | Some (inr _) => True | None => False end).
    { specialize (IH (p + 2) s l' E). destruct (cond_prefix_scan tbl n (p + 2) s) as [[t|u]|]; [right; exact IH|exact I|exact IH]. }
    repeat match goal with
           | |- context [if ?c then _ else _] => destruct c
           end; try exact R; try exact I; left; reflexivity.
  Qed.

  Lemma all_some_in l : forall ts, all_some l = Some ts -> forall o, In o l -> exists t, o = Some t /\ In t ts.
  Proof.
    induction l as [|[x|] r IH]; cbn [all_some]; intros ts; [intros _ o []| |discriminate].
    destruct (all_some r) as [xs|]; [|discriminate]. intros [= <-] o [<-|Hin]; [exists x; split; [reflexivity|left; reflexivity]|].
    destruct (IH xs eq_refl o Hin) as (t & -> & Ht). exists t. split; [reflexivity|right; exact Ht].
  Qed.

  Lemma jumps_in a ix l i : jumps tbl a ix = Some l -> In i ix -> exists t, tbl i = Some t /\ In (at_pc a t) l.
  Proof.
    unfold jumps. destruct (all_some (map tbl ix)) as [ts|] eqn:E; [|discriminate]. intros [= <-] Hi.
    destruct (all_some_in _ _ E (tbl i) (in_map tbl _ _ Hi)) as (t & Et & Ht). exists t. split; [exact Et|apply in_map; exact Ht].
  Qed.

  (* ---- Cons under the state updates *)
  Lemma cons_at_pc a s p : Cons a s -> Cons (at_pc a p) (set_pc s p).
  Proof. unfold Cons. cbn. tauto. Qed.

  Lemma cons_got a s : Cons a s -> 1 <= pos s -> Cons (got a) s.
  Proof. unfold Cons. cbn. tauto. Qed.

  Lemma cons_set_pos a s p : Cons a s -> pos s <= p -> Cons a (set_pos s p).
  Proof. unfold Cons. cbn. intuition lia. Qed.

  Lemma cons_push_opcode a s b : Cons a s -> Cons a (push_opcode s b).
  Proof.
    destruct (push_opcode_fields s b) as (F1 & _ & _ & F4 & _ & _ & F7 & _). destruct (push_opcode_more s b) as (G1 & G2).
    unfold Cons. rewrite F1, F4, F7, G1, G2. tauto.
  Qed.

  Lemma pinv_set_pc s p : PInv s -> PInv (set_pc s p).
  Proof. unfold PInv. cbn. tauto. Qed.
  Lemma pinv_set_pos s p : PInv s -> pos s <= p -> PInv (set_pos s p).
  Proof. unfold PInv. cbn. intuition lia. Qed.
  Lemma pinv_push_opcode s b : PInv s -> PInv (push_opcode s b).
  Proof. destruct (push_opcode_fields s b) as (F1 & _ & _ & _ & F5 & F6 & _). unfold PInv. rewrite F1, F5, F6. tauto. Qed.

  Lemma put_arg_sim s a k pr po l :
    Cons a s -> (pr = 0 \/ (0 < po /\ po + pr <= pos s)) -> add_arg a k = Some l ->
    match put_arg s k pr po with
    | inl s' => PInv s' /\ exists a', In a' l /\ Cons a' s'
    | inr r => Good r
    end.
  Proof.
    intros (C1 & C2 & C3 & C4 & C5) Hr. unfold add_arg, put_arg. rewrite C2. destruct (anarg a + k >? 4); [discriminate|]. intros [= <-].
    split; [unfold PInv; cbn; exact Hr|]. eexists. split; [left; reflexivity|]. unfold Cons. cbn. rewrite <- C2. tauto.
  Qed.

  Lemma read_bytes_sim src s a n mark (a' : ast) :
    Inv src s -> PInv s -> Cons a s -> 1 <= n ->
    (a' = got a /\ mark = false \/ exists w, a' = marked a w /\ w <= n /\ mark = true) ->
    match read_bytes src s n mark with
    | inl s' => PInv s' /\ exists a'', In a'' [a'] /\ Cons a'' s'
    | inr r => Good r
    end.
  Proof.
    intros HI HP (C1 & C2 & C3 & C4 & C5) Hn Ha. unfold read_bytes. destruct (pos s + n >? lenZs src) eqn:E; [apply truncated_good|].
    assert (P0 : 0 <= pos s) by (unfold Inv in HI; lia).
    destruct Ha as [[-> ->]|(w & -> & Hw & ->)].
    - split; [apply pinv_set_pos; [exact HP|lia]|]. eexists. split; [left; reflexivity|]. unfold Cons. cbn. intuition lia.
    - split; [unfold PInv in *; cbn; intuition lia|]. eexists. split; [left; reflexivity|]. unfold Cons. cbn.
      repeat split; try assumption; try lia; destruct (agot a) eqn:G; try lia; specialize (C4 eq_refl); lia.
  Qed.

  Ltac tblsome := match goal with |- context [match tbl ?i with _ => _ end] => destruct (tbl i) eqn:? end.

  (* ---- one operation *)
  Lemma exec_sim src x s a l :
    Inv src s -> PInv s -> Cons a s -> aexec tbl x a = Some l ->
    match exec tbl src x s with
    | inl s' => PInv s' /\ exists a', In a' l /\ Cons a' s'
    | inr r => Good r
    end.
  Proof.
    intros HI HP HC. assert (HC' := HC). destruct HC' as (Cpc & Cna & Chm & Cgot & Cim). unfold aexec, exec. rewrite <- Cpc.
    assert (P0 : 0 <= pos s <= lenZs src) by (unfold Inv in HI; lia).
    assert (Jmp : forall ix i l0, jumps tbl a ix = Some l0 -> In i ix ->
                  match (match tbl i with Some t => inl (set_pc s t) | None => inr RPanic end : st + result) with
                  | inl s' => PInv s' /\ exists a', In a' l0 /\ Cons a' s' | inr r => Good r end).
    { intros ix i l0 Hj Hi. destruct (jumps_in a ix l0 i Hj Hi) as (t & -> & Ht). split; [apply pinv_set_pc; exact HP|].
      exists (at_pc a t). split; [exact Ht|apply cons_at_pc; exact HC]. }
    destruct (x =? x_Fail). { intros _. destruct (fail src s) as [s'|r] eqn:E; [exfalso; exact (fail_not_inl _ _ _ E)|exact (fail_good _ _ _ HP E)]. }
    destruct (x =? x_Match). { destruct (agot a) eqn:G; [|discriminate]. intros _. apply finish_good; [exact HP|intros _; exact (Cgot eq_refl)]. }
    destruct (x =? x_Jump). { intros Hj. apply (Jmp _ _ _ Hj). left; reflexivity. }
    destruct (x =? x_CondByte).
    { destruct (tbl (pc s)) as [n|]; [|discriminate].
      destruct (pair_targets tbl (Z.to_nat n) (pc s + 1)) as [ts|] eqn:Ept; [|discriminate].
      set (p' := pc s + 1 + 2 * Z.of_nat (Z.to_nat n)).
      destruct (tbl p') as [y|] eqn:Ey; [|discriminate].
      destruct (if y =? x_Jump then tbl (p' + 1) else Some p') as [p''|] eqn:Ep''; [|discriminate].
      destruct (tbl p'') as [z|] eqn:Ez; [|discriminate]. intros [= <-].
      destruct (pos s >=? lenZs src) eqn:Epos; [apply truncated_good|].
      assert (Hs := cond_byte_scan_sound (Z.to_nat n) (pc s + 1) (byte_at src (pos s)) ts Ept).
      destruct (cond_byte_scan tbl (Z.to_nat n) (pc s + 1) (byte_at src (pos s))) as [[[tg|]|] q].
      - split; [apply pinv_set_pc, pinv_push_opcode, pinv_set_pos; [exact HP|lia]|].
        exists (got (at_pc a tg)). split; [right; apply (in_map (fun t => got (at_pc a t))); exact Hs|].
        assert (K : Cons (at_pc a tg) (set_pc (push_opcode (set_pos s (pos s + 1)) (byte_at src (pos s))) tg))
          by (apply cons_at_pc, cons_push_opcode, cons_set_pos; [exact HC|lia]).
        apply cons_got; [exact K|]. cbn. rewrite (proj1 (push_opcode_fields _ _)). cbn. lia.
      - destruct Hs.
      - subst q. fold p'. rewrite Ey, Ep'', Ez. destruct (z =? x_Fail).
        + split; [apply pinv_set_pc, pinv_set_pos; [exact HP|lia]|]. eexists. split; [left; reflexivity|].
          apply cons_got; [apply cons_at_pc, cons_set_pos; [exact HC|lia]|cbn; lia].
        + split; [apply pinv_set_pc; exact HP|]. eexists. split; [left; reflexivity|apply cons_at_pc; exact HC]. }
    destruct (x =? x_CondIs64). { intros Hj. apply (Jmp _ _ _ Hj). left; reflexivity. }
    destruct (x =? x_CondIsMem).
    { intros Hj. destruct (negb (have_modrm s) && (pos s >=? lenZs src)); [exact I|].
      match goal with |- context [tbl (if ?c then _ else _)] => destruct c end; apply (Jmp _ _ _ Hj); cbn; tauto. }
    destruct (x =? x_CondDataSize).
    { intros Hj. destruct (data_mode s =? 16); [|destruct (data_mode s =? 32)]; apply (Jmp _ _ _ Hj); cbn; tauto. }
    destruct (x =? x_CondAddrSize). { intros Hj. destruct (addr_mode s =? 32); apply (Jmp _ _ _ Hj); cbn; tauto. }
    destruct (x =? x_CondPrefix).
    { destruct (tbl (pc s)) as [n|]; [|discriminate].
      destruct (pair_targets tbl (Z.to_nat n) (pc s + 1)) as [ts|] eqn:Ept; [|discriminate]. intros [= <-].
      assert (Hs := cond_prefix_scan_sound (Z.to_nat n) (pc s + 1) s ts Ept).
      destruct (cond_prefix_scan tbl (Z.to_nat n) (pc s + 1) s) as [[tg|[]]|]; [| |destruct Hs].
      - split; [apply pinv_set_pc; exact HP|]. exists (at_pc a tg). split; [apply in_map; exact Hs|apply cons_at_pc; exact HC].
      - destruct (fail src s) as [s'|r] eqn:E; [exfalso; exact (fail_not_inl _ _ _ E)|exact (fail_good _ _ _ HP E)]. }
    destruct (x =? x_CondSlashR).
    { intros Hj. apply (Jmp _ _ _ Hj).
      assert (B : 0 <= Z.land (regop s) 7 < 8) by (change 7 with (Z.ones 3); rewrite Z.land_ones by lia; apply Z.mod_pos_bound; lia).
      assert (Hc : Z.land (regop s) 7 = 0 \/ Z.land (regop s) 7 = 1 \/ Z.land (regop s) 7 = 2 \/ Z.land (regop s) 7 = 3 \/
                   Z.land (regop s) 7 = 4 \/ Z.land (regop s) 7 = 5 \/ Z.land (regop s) 7 = 6 \/ Z.land (regop s) 7 = 7) by lia.
      cbn [In]. destruct Hc as [->|[->|[->|[->|[->|[->|[->| ->]]]]]]]; rewrite ?Z.add_0_r; tauto. }
    destruct (x =? x_ReadSlashR).
    { intros [= <-]. split; [exact HP|]. exists a. split; [left; reflexivity|].
      unfold Cons. rewrite Cpc. tauto. }
    assert (RB : forall n mark a' l0, Some [a'] = Some l0 -> 1 <= n ->
                 (a' = got a /\ mark = false \/ exists w, a' = marked a w /\ w <= n /\ mark = true) ->
                 match read_bytes src s n mark with
                 | inl s' => PInv s' /\ exists a'', In a'' l0 /\ Cons a'' s' | inr r => Good r end).
    { intros n mark a' l0 [= <-] Hn Ha. apply (read_bytes_sim src s a n mark a' HI HP HC Hn Ha). }
    destruct (x =? x_ReadIb). { intros E. apply (RB 1 false _ _ E); [lia|left; tauto]. }
    destruct (x =? x_ReadIw). { intros E. apply (RB 2 false _ _ E); [lia|left; tauto]. }
    destruct (x =? x_ReadID). { intros E. apply (RB 4 false _ _ E); [lia|left; tauto]. }
    destruct (x =? x_ReadIo). { intros E. apply (RB 8 false _ _ E); [lia|left; tauto]. }
    destruct (x =? x_ReadCb). { intros E. apply (RB 1 true _ _ E); [lia|right; exists 1; repeat split; lia]. }
    destruct (x =? x_ReadCw). { intros E. apply (RB 2 true _ _ E); [lia|right; exists 2; repeat split; lia]. }
    destruct (x =? x_ReadCm). { intros E. apply (RB _ true _ _ E); [destruct (addr_mode s =? 32); lia|right; exists 4; repeat split; destruct (addr_mode s =? 32); lia]. }
    destruct (x =? x_ReadCd). { intros E. apply (RB 4 true _ _ E); [lia|right; exists 4; repeat split; lia]. }
    destruct (x =? x_ReadCp). { intros E. apply (RB 6 true _ _ E); [lia|right; exists 6; repeat split; lia]. }
    destruct (x =? x_SetOp).
    { destruct (tbl (pc s)) as [o|]; [|discriminate]. intros [= <-]. split; [unfold PInv in *; cbn; exact HP|].
      eexists. split; [left; reflexivity|]. unfold Cons in *. cbn. tauto. }
    assert (Hdisp : displen s = 0 \/ (0 < dispoff s /\ dispoff s + displen s <= pos s)).
    { unfold Inv in HI. destruct HI as (_ & Hd & Hd0 & _). destruct (Z.eq_dec (displen s) 0); [left; assumption|right; apply Hd; lia]. }
    assert (PA : forall t k pr po l0, Cons a t -> (pr = 0 \/ (0 < po /\ po + pr <= pos t)) -> add_arg a k = Some l0 ->
                 match put_arg t k pr po with inl s' => PInv s' /\ exists a', In a' l0 /\ Cons a' s' | inr r => Good r end)
      by (intros; eapply put_arg_sim; eassumption).
    assert (FL : forall t, PInv t -> match fail src t with inl s' => PInv s' /\ exists a', In a' l /\ Cons a' s' | inr r => Good r end).
    { intros t Ht. destruct (fail src t) as [s'|r] eqn:E; [exfalso; exact (fail_not_inl _ _ _ E)|exact (fail_good _ _ _ Ht E)]. }
    destruct (is_in x mem_arg_ops).
    { intros E. destruct (have_mem s); [|apply FL; exact HP]. destruct (riprel s); apply (PA s _ _ _ _ HC); assumption. }
    destruct (is_in x rm_arg_ops). { intros E. destruct (have_mem s && riprel s); apply (PA s _ _ _ _ HC); assumption. }
    destruct ((x =? x_ArgPtr16colon16) || (x =? x_ArgPtr16colon32)). { intros E. apply (PA s _ _ _ _ HC); assumption. }
    assert (CR : forall r, Cons a (with_regop s r)) by (intros r; unfold Cons in *; cbn; tauto).
    destruct (x =? x_ArgCR0dashCR7). { intros E. destruct (has_lock s); [apply (PA _ _ _ _ _ (CR _)); assumption|apply (PA s _ _ _ _ HC); assumption]. }
    destruct (x =? x_ArgSreg).
    { intros E. destruct (Z.land (regop s) 7 >=? 6); [apply FL; unfold PInv in *; cbn; exact HP|apply (PA _ _ _ _ _ (CR _)); assumption]. }
    destruct ((x =? x_ArgMm2) || (x =? x_ArgXmm2)). { intros E. destruct (have_mem s); [apply FL; exact HP|apply (PA s _ _ _ _ HC); assumption]. }
    destruct (x =? x_ArgRel8). { destruct (aimw a >=? 1) eqn:W; [|discriminate]. intros E. apply (PA s _ _ _ _ HC); [right; lia|exact E]. }
    destruct (x =? x_ArgRel16). { destruct (aimw a >=? 2) eqn:W; [|discriminate]. intros E. apply (PA s _ _ _ _ HC); [right; lia|exact E]. }
    destruct (x =? x_ArgRel32). { destruct (aimw a >=? 4) eqn:W; [|discriminate]. intros E. apply (PA s _ _ _ _ HC); [right; lia|exact E]. }
    destruct (is_in x plain_arg_ops). { intros E. apply (PA s _ _ _ _ HC); assumption. }
    discriminate.
  Qed.

  (* ---- one iteration of the loop *)
  Lemma step_sim src s a l :
    Inv src s -> PInv s -> Cons a s -> asucc tbl a = Some l ->
    match step tbl src s with
    | inl s' => PInv s' /\ exists a', In a' l /\ Cons a' s'
    | inr r => Good r
    end.
  Proof.
    intros HI HP HC. assert (HC' := HC). destruct HC' as (Cpc & Cna & Chm & Cgot & Cim). unfold asucc, step. rewrite <- Cpc, <- Chm.
    destruct (tbl (pc s)) as [x|]; [|discriminate].
    destruct ((x =? x_CondSlashR) || (x =? x_ReadSlashR)).
    - destruct (have_modrm s) eqn:Hm; [discriminate|]. cbn [andb].
      destruct (read_modrm src (set_pc s (pc s + 1))) as [t|r] eqn:Er.
      + intros Ha. destruct (read_modrm_facts _ _ _ Er) as (F1 & F2 & F3 & F4 & F5 & F6 & F7). cbn in F1, F2, F4, F5, F6, F7.
        apply (exec_sim src x t (with_hm (at_pc a (pc s + 1))) l); [apply (read_modrm_inv src _ t (inv_set_pc src s _ HI) Er)| | |exact Ha].
        * unfold PInv in *. rewrite F6, F7. intuition lia.
        * assert (P0 : 0 <= pos s) by (unfold Inv in HI; lia).
          unfold Cons. cbn. rewrite F1, F2, F3, F5. repeat split; try lia; try assumption; intros Hw; specialize (Cim Hw); lia.
      + intros _. apply (read_modrm_good src (set_pc s (pc s + 1)) r); [exact Hm|exact Er].
    - cbn [andb]. intros Ha. apply (exec_sim src x (set_pc s (pc s + 1)) (at_pc a (pc s + 1)) l); [apply inv_set_pc; exact HI|apply pinv_set_pc; exact HP|apply cons_at_pc; exact HC|exact Ha].
  Qed.

  (* ---- the whole loop, given a set of abstract states accepted by the checker *)
  Variable R : PositiveMap.t ast.
  Variable rk : ast -> Z.
  Hypothesis Hclosed : closed_check tbl R rk = true.

  Lemma ast_eqb_eq a b : ast_eqb a b = true -> a = b.
  Proof.
    destruct a as [p1 n1 w1 g1 h1], b as [p2 n2 w2 g2 h2]. unfold ast_eqb. cbn. intros H.
    apply andb_prop in H. destruct H as [H H5]. apply andb_prop in H. destruct H as [H H4].
    apply andb_prop in H. destruct H as [H H3]. apply andb_prop in H. destruct H as [H1 H2].
    apply Z.eqb_eq in H1, H2, H3. apply eqb_prop in H4, H5. subst. reflexivity.
  Qed.

  Lemma in_set_ok a : in_set R a = true -> state_ok tbl R rk a = true.
  Proof.
    unfold in_set. destruct (PositiveMap.find (key a) R) as [b|] eqn:E; [|discriminate]. intros Hb.
    apply ast_eqb_eq in Hb. subst b. apply PositiveMap.elements_correct in E.
    unfold closed_check in Hclosed. rewrite forallb_forall in Hclosed. exact (Hclosed _ E).
  Qed.

  Lemma run_safe fuel : forall src s a,
    Inv src s -> PInv s -> Cons a s -> in_set R a = true -> 0 <= rk a < Z.of_nat fuel -> Good (run tbl fuel src s).
  Proof.
    induction fuel as [|f IH]; intros src s a HI HP HC HR Hrk; [cbn in Hrk; lia|]. cbn [run].
    assert (Hok := in_set_ok a HR). unfold state_ok in Hok.
    destruct (asucc tbl a) as [l|] eqn:Ea; [|rewrite andb_false_r in Hok; discriminate].
    apply andb_prop in Hok. destruct Hok as [_ Hl]. rewrite forallb_forall in Hl.
    assert (Hs := step_sim src s a l HI HP HC Ea).
    destruct (step tbl src s) as [s'|r] eqn:Es; [|exact Hs].
    destruct Hs as (HP' & a' & Hin & HC'). specialize (Hl a' Hin).
    apply andb_prop in Hl. destruct Hl as [Hl H3]. apply andb_prop in Hl. destruct Hl as [H1 H2].
    apply (IH src s' a'); [exact (step_inv tbl src s s' HI Es)|exact HP'|exact HC'|exact H1|lia].
  Qed.

  (* ---- prefixes and REX leave the interpreter state alone *)
  Definition Start (s : st) : Prop := pc s = 1 /\ narg s = 0 /\ have_modrm s = false /\ pcrel s = 0.

  Lemma scan_prefixes_start n : forall src s s', Start s -> scan_prefixes n src s = inl s' -> Start s'.
  Proof.
    induction n as [|n IH]; intros src s s' H; cbn [scan_prefixes]; [intros [= <-]; exact H|].
    destruct (pos s >=? lenZs src); [intros [= <-]; exact H|].
    destruct (legacy_prefix _).
    { destruct (pos s >=? 14); [discriminate|]. apply IH.
      repeat match goal with |- context [if ?c then _ else _] => destruct c end; exact H. }
    destruct (_ =? 197); [destruct (_ && _); [apply IH; exact H|intros [= <-]; exact H]|].
    destruct (_ =? 196); [destruct (_ && _); [apply IH; exact H|intros [= <-]; exact H]|].
    intros [= <-]; exact H.
  Qed.

  Lemma read_rex_start src s s' : Start s -> read_rex src s = inl s' -> Start s'.
  Proof.
    intros H. unfold read_rex. destruct (_ && _ && _); [|intros [= <-]; exact H].
    destruct (pos s >=? 14); [discriminate|]. intros [= <-]. exact H.
  Qed.

  Hypothesis Hinit : in_set R init_ast = true.
  Hypothesis Hrk0 : 0 <= rk init_ast.

  Theorem decode_safe fuel src : rk init_ast < Z.of_nat fuel -> Good (decode tbl fuel src).
  Proof.
    intros Hf. unfold decode. destruct (scan_prefixes 16 (firstn 15 src) init_st) as [s1|r] eqn:E1.
    2:{ rewrite (scan_prefixes_res _ _ _ _ E1). exact I. }
    assert (H1 := scan_prefixes_inv _ _ _ _ (init_inv _) E1).
    assert (S0 : Start init_st) by (unfold Start, init_st; cbn; tauto).
    assert (S1 : Start s1) by (apply (scan_prefixes_start _ _ _ _ S0 E1)).
    destruct (read_rex (firstn 15 src) s1) as [s2|r] eqn:E2; [|rewrite (read_rex_res _ _ _ E2); exact I].
    destruct (read_rex_start _ _ _ S1 E2) as (A1 & A2 & A3 & A4).
    apply (run_safe fuel _ s2 init_ast); [exact (read_rex_inv _ _ _ H1 E2)|left; exact A4| |exact Hinit|lia].
    unfold Cons, init_ast. cbn. repeat split; try assumption; try discriminate; lia.
  Qed.
End Sound.

(* both halves together: every outcome of Decode for a program accepted by the checker *)
Theorem decode_total_wf tbl R rk fuel src :
  closed_check tbl R rk = true -> in_set R init_ast = true -> 0 <= rk init_ast < Z.of_nat fuel ->
  match decode tbl fuel src with
  | ROk len _ _ pr po => 1 <= len <= 15 /\ len <= lenZs src /\ (pr = 0 \/ (0 < po /\ po + pr <= len))
  | RUnrecognized len => 0 <= len <= 15 /\ len <= lenZs src
  | RPrefix | RTruncated => True
  | RInternal _ | RPanic | RFuel => False
  end.
Proof.
  intros Hc Hi Hr. assert (G := decode_safe tbl R rk Hc Hi (proj1 Hr) fuel src (proj2 Hr)).
  assert (B := decode_bounds tbl fuel src). destruct (lenZs_firstn15 src) as [L1 L2].
  destruct (decode tbl fuel src); cbn in *; try exact I; try (exfalso; exact G); intuition lia.
Qed.

(* ---------------------------------------------------------------- the table function is the list of the source *)
Lemma build_tbl_find l : forall i m k,
  PositiveMap.find k (build_tbl l i m) =
  if (0 <=? Z.pos k - Z.pos i) && (Z.pos k - Z.pos i <? Z.of_nat (length l))
  then nth_error l (Z.to_nat (Z.pos k - Z.pos i)) else PositiveMap.find k m.
Proof.
  induction l as [|x r IH]; intros i m k; cbn [build_tbl].
  - cbn [length]. destruct (0 <=? Z.pos k - Z.pos i) eqn:E1; destruct (Z.pos k - Z.pos i <? Z.of_nat 0) eqn:E2; cbn [andb]; try reflexivity; lia.
  - rewrite IH. destruct (Pos.eq_dec k i) as [->|Hne].
    + replace (Z.pos i - Z.pos i) with 0 by lia. cbn [nth_error Z.to_nat].
      destruct (0 <=? Z.pos i - Z.pos (Pos.succ i)) eqn:E1; [lia|]. cbn [andb]. rewrite PositiveMap.gss.
      destruct (0 <? Z.of_nat (length (x :: r))) eqn:E3; [reflexivity|cbn [length] in E3; lia].
    + rewrite PositiveMap.gso by exact Hne.
      assert (Hne' : Z.pos k <> Z.pos i) by (intros H; apply Hne; injection H; auto).
      destruct (0 <=? Z.pos k - Z.pos (Pos.succ i)) eqn:E1.
      * destruct (0 <=? Z.pos k - Z.pos i) eqn:E2; [|lia]. cbn [andb].
        destruct (Z.pos k - Z.pos (Pos.succ i) <? Z.of_nat (length r)) eqn:E3;
          destruct (Z.pos k - Z.pos i <? Z.of_nat (length (x :: r))) eqn:E4; cbn [length] in E4; try lia; [|reflexivity].
        replace (Z.to_nat (Z.pos k - Z.pos i)) with (S (Z.to_nat (Z.pos k - Z.pos (Pos.succ i)))) by lia. reflexivity.
      * cbn [andb]. destruct (0 <=? Z.pos k - Z.pos i) eqn:E2; [lia|]. reflexivity.
Qed.

Theorem tbl_of_build l i :
  tbl_of (build_tbl l 1%positive (PositiveMap.empty Z)) i = if i <? 0 then None else nth_error l (Z.to_nat i).
Proof.
  unfold tbl_of. destruct (i <? 0) eqn:E; [reflexivity|]. rewrite build_tbl_find. rewrite PositiveMap.gempty.
  replace (Z.pos (Z.to_pos (i + 1)) - 1) with i by lia.
  destruct (0 <=? i) eqn:E1; [|lia]. cbn [andb].
  destruct (i <? Z.of_nat (length l)) eqn:E2; [reflexivity|]. symmetry. apply nth_error_None. lia.
Qed.
