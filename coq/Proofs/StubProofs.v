(* C04 / C05 (sequential part): the id-based concrete When state refines the clause-list specification. *)
From Coq Require Import List ZArith Bool Arith Lia.
From Goom Require Import Model.Stub Model.StubSpec.
Import ListNotations.
Open Scope Z_scope.

(* ---------- list helpers ---------- *)
Lemma nth_error_set_nth {A} (l : list A) n k x :
  nth_error (set_nth n l x) k =
  if Nat.eqb k n then (if Nat.ltb n (length l) then Some x else None) else nth_error l k.
Proof.
  revert n k; induction l as [|y l IH]; intros n k.
  - assert (E : set_nth n (@nil A) x = []) by (destruct n; reflexivity). rewrite E.
    cbn [length]. assert (E2 : (n <? 0)%nat = false) by (apply Nat.ltb_ge; lia). rewrite E2.
    destruct (Nat.eqb k n); destruct k; reflexivity.
  - destruct n as [|n]; destruct k as [|k]; cbn [set_nth nth_error length]; try reflexivity.
    rewrite IH. cbn [Nat.eqb]. destruct (Nat.eqb k n); [|reflexivity].
    change (S n <? S (length l))%nat with (n <? length l)%nat. reflexivity.
Qed.

Lemma set_nth_length {A} (l : list A) n x : length (set_nth n l x) = length l.
Proof. revert n; induction l as [|y l IH]; intros [|n]; cbn; auto. Qed.

(* ---------- the simulation relation ---------- *)
Definition mrel (m : matcher) (c : sclause) : Prop :=
  m_cond m = sc_cond c /\ m_results m = sc_results c /\
  (sc_cond c = CEmpty \/
   m_cur m = if (length (sc_results c) <=? 1)%nat then 0%nat else Nat.min (sc_pos c) (length (sc_results c))).

Definition rel (st : list matcher) (id : nat) (c : sclause) : Prop :=
  exists m, nth_error st id = Some m /\ mrel m c.

Record R (w : whenst) (s : sstate) : Prop := {
  r_clauses : Forall2 (rel (w_store w)) (w_matches w) (ss_clauses s);
  r_nodup : NoDup (w_matches w);
  r_default : match w_default w, ss_default s with
              | Some d, Some c => rel (w_store w) d c /\ ~ In d (w_matches w)
              | None, None => True
              | _, _ => False
              end;
  r_nout : w_nout w = ss_nout s
}.

(* the cursor rule of BaseMatcher.Result agrees with "k-th selection gives element min k (n-1)" *)
Lemma result_rel m c :
  mrel m c ->
  fst (result m) = seq_result c /\
  mrel {| m_cond := m_cond m; m_results := m_results m; m_cur := snd (result m) |} (bump c).
Proof.
  intros (Hc & Hr & Hcur). unfold result, seq_result, mrel. rewrite Hc, Hr. cbn [bump sc_cond sc_results sc_pos m_cond m_results m_cur].
  destruct (sc_cond c) eqn:Ec.
  all: try (set (n := length (sc_results c)) in *).
  4: { (* CEmpty *) cbn [fst snd]. split; [reflexivity|]. repeat split. now left. }
  all: destruct Hcur as [Hcur|Hcur]; [congruence|];
       rewrite Hcur;
       destruct (n <=? 1)%nat eqn:E1;
       [ apply Nat.leb_le in E1;
         replace (Nat.min (sc_pos c) (n - 1)) with 0%nat by lia;
         destruct (nth_error (sc_results c) 0); cbn [fst snd]; (split; [reflexivity|]); repeat split; right; reflexivity
       | apply Nat.leb_gt in E1;
         destruct (n <=? Nat.min (sc_pos c) n)%nat eqn:E2;
         [ apply Nat.leb_le in E2; cbn [fst snd];
           replace (Nat.min (sc_pos c) (n - 1)) with (n - 1)%nat by lia;
           split; [reflexivity|]; repeat split; right; lia
         | apply Nat.leb_gt in E2; cbn [fst snd];
           replace (Nat.min (sc_pos c) (n - 1)) with (Nat.min (sc_pos c) n) by lia;
           split; [reflexivity|]; repeat split; right; lia ] ].
Qed.

Lemma fire_spec w id m c :
  nth_error (w_store w) id = Some m -> mrel m c ->
  let '(w', o) := fire w id in
  o = seq_result c /\
  w_matches w' = w_matches w /\ w_default w' = w_default w /\ w_nout w' = w_nout w /\
  rel (w_store w') id (bump c) /\
  (forall id2, id2 <> id -> nth_error (w_store w') id2 = nth_error (w_store w) id2).
Proof.
  intros Hm Hrel. unfold fire. rewrite Hm.
  destruct (result_rel m c Hrel) as [Ho Hm'].
  destruct (result m) as [o cnew] eqn:Er. cbn [fst snd] in *.
  cbn [with_store w_store w_matches w_default w_nout].
  assert (Hlt : (id <? length (w_store w))%nat = true).
  { apply Nat.ltb_lt. apply nth_error_Some. congruence. }
  repeat split; auto.
  - exists {| m_cond := m_cond m; m_results := m_results m; m_cur := cnew |}. split; [|exact Hm'].
    rewrite nth_error_set_nth, Nat.eqb_refl, Hlt. reflexivity.
  - intros id2 Hne. rewrite nth_error_set_nth. apply Nat.eqb_neq in Hne. now rewrite Hne.
Qed.

Lemma rel_transport st st' id c :
  nth_error st' id = nth_error st id -> rel st id c -> rel st' id c.
Proof. intros E [m [H1 H2]]. exists m. split; [congruence | exact H2]. Qed.

Lemma matches_id_cond w args id c :
  rel (w_store w) id c -> matches_id w args id = cond_match (sc_cond c) args.
Proof. intros [m [H1 (Hc & _ & _)]]. unfold matches_id. now rewrite H1, Hc. Qed.

(* scanning w.matches corresponds to scanning the clause list *)
Lemma scan_sim w args : forall ms cs,
  Forall2 (rel (w_store w)) ms cs -> NoDup ms ->
  match find (matches_id w args) ms, select cs args with
  | Some id, Some (o, cs') =>
      exists c, rel (w_store w) id c /\ o = seq_result c /\ In id ms /\
      (forall st', rel st' id (bump c) ->
                   (forall id2, id2 <> id -> nth_error st' id2 = nth_error (w_store w) id2) ->
                   Forall2 (rel st') ms cs')
  | None, None => True
  | _, _ => False
  end.
Proof.
  induction ms as [|id ms IH]; intros cs HF Hnd.
  { inversion HF; subst. cbn [find select]. exact I. }
  inversion HF as [|? c ? cs0 Hrel HFt]; subst. cbn [find select].
  rewrite (matches_id_cond w args id c Hrel).
  apply NoDup_cons_iff in Hnd as [Hnin Hnd'].
  destruct (cond_match (sc_cond c) args).
  - exists c. repeat split; auto; [now left|].
    intros st' Hid Hoth. constructor; [exact Hid|].
    clear - HFt Hnin Hoth.
    induction HFt as [|i ci li lci Hi _ IHl]; [constructor|].
    constructor.
    + apply (rel_transport (w_store w)); [|exact Hi]. apply Hoth. intros ->. apply Hnin. now left.
    + apply IHl. intros Hin. apply Hnin. now right.
  - specialize (IH cs0 HFt Hnd').
    destruct (find (matches_id w args) ms) as [id'|]; destruct (select cs0 args) as [[o cs']|]; try exact IH.
    destruct IH as (c' & Hr & Ho & Hin & Hk).
    exists c'. repeat split; auto; [now right|].
    intros st' Hid Hoth. constructor.
    + apply (rel_transport (w_store w)); [|exact Hrel]. apply Hoth. intros ->. contradiction.
    + apply Hk; assumption.
Qed.

(* MAIN (one call): invoke on the concrete state = spec_invoke on the clause list, relation preserved *)
Theorem invoke_sim w s args :
  R w s ->
  let '(w', o) := invoke w args in
  let '(s', o') := spec_invoke s args in
  o = o' /\ R w' s'.
Proof.
  intros [HF Hnd Hd Hn]. unfold invoke, spec_invoke.
  pose proof (scan_sim w args _ _ HF Hnd) as Hs.
  destruct (find (matches_id w args) (w_matches w)) as [id|];
    destruct (select (ss_clauses s) args) as [[o cs']|]; try contradiction.
  - destruct Hs as (c & [m [Hm Hrel]] & Ho & Hin & Hk).
    pose proof (fire_spec w id m c Hm Hrel) as Hf.
    destruct (fire w id) as [w' o2]. destruct Hf as (Ho2 & Hms & Hdf & Hno & Hid & Hoth).
    split; [congruence|].
    constructor; cbn [ss_clauses ss_default ss_nout].
    + rewrite Hms. apply Hk; assumption.
    + rewrite Hms. exact Hnd.
    + rewrite Hdf, Hms. destruct (w_default w) as [d|]; destruct (ss_default s) as [cd|]; try exact Hd.
      destruct Hd as [Hrd Hnin]. split; [|exact Hnin].
      apply (rel_transport (w_store w)); [|exact Hrd]. apply Hoth. intros ->. contradiction.
    + congruence.
  - destruct (w_default w) as [d|] eqn:Ed; destruct (ss_default s) as [cd|] eqn:Esd; try contradiction.
    + destruct Hd as [[m [Hm Hrel]] Hnin].
      pose proof (fire_spec w d m cd Hm Hrel) as Hf.
      destruct (fire w d) as [w' o2]. destruct Hf as (Ho2 & Hms & Hdf & Hno & Hid & Hoth).
      split; [exact Ho2|].
      constructor; cbn [ss_clauses ss_default ss_nout].
      * rewrite Hms.
        clear - HF Hoth Hnin. induction HF as [|i ci li lci Hi _ IHl]; [constructor|].
        constructor.
        -- apply (rel_transport (w_store w)); [|exact Hi]. apply Hoth. intros ->. apply Hnin. now left.
        -- apply IHl. intros Hin. apply Hnin. now right.
      * rewrite Hms. exact Hnd.
      * rewrite Hdf, Ed, Hms. split; assumption.
      * congruence.
    + rewrite Hn. split; [reflexivity|]. constructor; auto. rewrite Ed, Esd. exact I.
Qed.

(* any number of calls *)
Theorem calls_sim : forall cs w s, R w s -> calls w cs = spec_calls s cs.
Proof.
  induction cs as [|a cs IH]; intros w s HR; cbn [calls spec_calls]; [reflexivity|].
  pose proof (invoke_sim w s a HR) as H.
  destruct (invoke w a) as [w' o]. destruct (spec_invoke s a) as [s' o'].
  destruct H as [-> HR']. f_equal. apply IH. exact HR'.
Qed.

(* ---------- configuration: the API operations build exactly the clause list ---------- *)
Definition fresh_m (c : cond) (rs : list Z) : matcher := {| m_cond := c; m_results := rs; m_cur := 0 |}.

Lemma and_returns w id m more :
  w_cur w = Some id -> nth_error (w_store w) id = Some m ->
  let w' := wrun w (map WAndReturn more) in
  w_cur w' = Some id /\ w_matches w' = w_matches w /\ w_default w' = w_default w /\ w_nout w' = w_nout w /\
  length (w_store w') = length (w_store w) /\
  nth_error (w_store w') id = Some {| m_cond := m_cond m; m_results := m_results m ++ more; m_cur := m_cur m |} /\
  (forall id2, id2 <> id -> nth_error (w_store w') id2 = nth_error (w_store w) id2).
Proof.
  revert w m; induction more as [|x more IH]; intros w m Hc Hm; cbn [map wrun fold_left].
  - rewrite app_nil_r. repeat split; auto. rewrite Hm. destruct m; reflexivity.
  - unfold wrun in IH. cbn [wstep]. rewrite Hc. unfold add_result. rewrite Hm.
    set (w1 := with_store w _).
    assert (Hlt : (id <? length (w_store w))%nat = true).
    { apply Nat.ltb_lt. apply nth_error_Some. congruence. }
    assert (Hm1 : nth_error (w_store w1) id = Some {| m_cond := m_cond m; m_results := m_results m ++ [x]; m_cur := m_cur m |}).
    { unfold w1. cbn [with_store w_store]. rewrite nth_error_set_nth, Nat.eqb_refl, Hlt. reflexivity. }
    destruct (IH w1 _ Hc Hm1) as (H1 & H2 & H3 & H4 & H5 & H6 & H7).
    cbn [m_cond m_results m_cur] in H6. rewrite <- app_assoc in H6. cbn [app] in H6.
    repeat split; auto.
    + rewrite H5. unfold w1. cbn [with_store w_store]. apply set_nth_length.
    + intros id2 Hne. rewrite (H7 id2 Hne). unfold w1. cbn [with_store w_store].
      rewrite nth_error_set_nth. apply Nat.eqb_neq in Hne. now rewrite Hne.
Qed.

(* the ids a related state mentions are valid *)
Lemma rel_lt st id c : rel st id c -> (id < length st)%nat.
Proof. intros [m [H _]]. apply nth_error_Some. congruence. Qed.

Lemma Forall2_rel_lt st ms cs : Forall2 (rel st) ms cs -> Forall (fun id => (id < length st)%nat) ms.
Proof. induction 1; constructor; eauto using rel_lt. Qed.

Lemma Forall2_rel_transport st st' ms cs :
  (forall id, (id < length st)%nat -> nth_error st' id = nth_error st id) ->
  Forall2 (rel st) ms cs -> Forall2 (rel st') ms cs.
Proof.
  intros Ht. induction 1 as [|id c ms cs Hr _ IH]; constructor; [|exact IH].
  apply (rel_transport st); [|exact Hr]. apply Ht. eapply rel_lt; eauto.
Qed.

(* one clause:  .When(..)/.In(..) .Return(r) .AndReturn(more...)  appends exactly one clause *)
Lemma clause_step w s c :
  R w s ->
  R (wrun w (clause_ops c))
    {| ss_clauses := ss_clauses s ++ [{| sc_cond := kind_cond (cc_kind c); sc_results := cc_first c :: cc_more c; sc_pos := 0 |}];
       ss_default := ss_default s; ss_nout := ss_nout s |}.
Proof.
  intros [HF Hnd Hd Hn]. unfold clause_ops, wrun. cbn [fold_left].
  set (id := length (w_store w)).
  set (k := kind_cond (cc_kind c)).
  (* state after When/In *)
  assert (E0 : wstep w (kind_op (cc_kind c)) =
               {| w_store := w_store w ++ [fresh_m k []]; w_matches := w_matches w; w_default := w_default w;
                  w_cur := Some id; w_nout := w_nout w |}).
  { unfold k. destruct (cc_kind c); reflexivity. }
  rewrite E0. set (w0 := {| w_store := _ |}).
  (* state after Return *)
  assert (Hget0 : nth_error (w_store w0) id = Some (fresh_m k [])).
  { unfold w0, id. cbn [w_store]. rewrite nth_error_app2 by lia. rewrite Nat.sub_diag. reflexivity. }
  cbn [wstep]. change (w_cur w0) with (Some id). cbv iota. unfold add_result. rewrite Hget0.
  set (w1 := {| w_store := _; w_matches := _ ++ [id] |}).
  assert (Hlen0 : length (w_store w0) = S id) by (unfold w0, id; cbn [w_store]; rewrite app_length; cbn; lia).
  assert (Hget1 : nth_error (w_store w1) id = Some (fresh_m k [cc_first c])).
  { unfold w1. cbn [w_store with_store]. rewrite nth_error_set_nth, Nat.eqb_refl.
    assert (Hl : (id <? length (w_store w0))%nat = true) by (apply Nat.ltb_lt; lia). rewrite Hl. reflexivity. }
  assert (Hc1 : w_cur w1 = Some id) by reflexivity.
  destruct (and_returns w1 id _ (cc_more c) Hc1 Hget1) as (_ & H2 & H3 & H4 & H5 & H6 & H7).
  fold (wrun w1 (map WAndReturn (cc_more c))) .
  set (w2 := wrun w1 (map WAndReturn (cc_more c))) in *.
  assert (Hold : forall i, (i < id)%nat -> nth_error (w_store w2) i = nth_error (w_store w) i).
  { intros i Hi. rewrite H7 by lia. unfold w1. cbn [w_store with_store].
    rewrite nth_error_set_nth. assert (E : Nat.eqb i id = false) by (apply Nat.eqb_neq; lia). rewrite E.
    unfold w0. cbn [w_store]. apply nth_error_app1. exact Hi. }
  pose proof (Forall2_rel_lt _ _ _ HF) as Hlt.
  constructor; cbn [ss_clauses ss_default ss_nout].
  - rewrite H2. unfold w1. cbn [w_matches]. unfold w0. cbn [w_matches].
    apply Forall2_app.
    + apply (Forall2_rel_transport (w_store w)); [|exact HF]. intros i Hi. apply Hold. exact Hi.
    + constructor; [|constructor].
      eexists. split; [exact H6|]. cbn [fresh_m m_cond m_results m_cur]. repeat split. right.
      cbn [sc_results sc_pos]. destruct (length (cc_first c :: cc_more c) <=? 1)%nat; reflexivity.
  - rewrite H2. unfold w1, w0. cbn [w_matches].
    apply NoDup_app_remove_l || idtac.
    rewrite Forall_forall in Hlt.
    apply (proj2 (NoDup_app_iff _ _)) || idtac.
    assert (Hnin : ~ In id (w_matches w)) by (intros Hin; specialize (Hlt _ Hin); unfold id in Hlt; lia).
    clear - Hnd Hnin. induction (w_matches w) as [|x l IH]; cbn [app].
    + constructor; [intros []|constructor].
    + inversion Hnd; subst. constructor.
      * intros Hin. apply in_app_or in Hin as [Hin|[->|[]]]; [contradiction|]. apply Hnin. now left.
      * apply IH; [assumption|]. intros Hin. apply Hnin. now right.
  - rewrite H3, H2. unfold w1, w0. cbn [w_default w_matches].
    destruct (w_default w) as [d|]; destruct (ss_default s) as [cd|]; try exact Hd.
    destruct Hd as [Hrd Hnin]. pose proof (rel_lt _ _ _ Hrd) as Hdl. split.
    + apply (rel_transport (w_store w)); [|exact Hrd]. apply Hold. exact Hdl.
    + intros Hin. apply in_app_or in Hin as [Hin|[Heq|[]]]; [contradiction|]. unfold id in Heq. lia.
  - rewrite H4. unfold w1, w0. cbn [w_nout]. exact Hn.
Qed.

Lemma clauses_fold : forall cls w s,
  R w s ->
  R (wrun w (flat_map clause_ops cls))
    {| ss_clauses := ss_clauses s ++ map (fun c => {| sc_cond := kind_cond (cc_kind c); sc_results := cc_first c :: cc_more c; sc_pos := 0 |}) cls;
       ss_default := ss_default s; ss_nout := ss_nout s |}.
Proof.
  induction cls as [|c cls IH]; intros w s HR; cbn [flat_map map].
  - rewrite app_nil_r. destruct s; exact HR.
  - unfold wrun. rewrite fold_left_app. fold (wrun w (clause_ops c)).
    fold (wrun (wrun w (clause_ops c)) (flat_map clause_ops cls)).
    pose proof (IH _ _ (clause_step w s c HR)) as H. cbn [ss_clauses ss_default ss_nout] in H.
    rewrite <- app_assoc in H. exact H.
Qed.

(* MAIN (configuration): every well-formed configuration history yields the clause list it denotes *)
Theorem configure_R cf : R (configure cf) (spec_of cf).
Proof.
  unfold configure, spec_of.
  destruct (cf_default cf) as [[r0 more]|] eqn:Ed.
  - (* mocker.Return(r0).AndReturn(more...) first *)
    set (w0 := create_when (cf_nout cf) (CrReturn r0)).
    assert (Hc : w_cur w0 = Some 0%nat) by reflexivity.
    assert (Hg : nth_error (w_store w0) 0 = Some (fresh_m CAlways [r0])) by reflexivity.
    destruct (and_returns w0 0 _ more Hc Hg) as (_ & H2 & H3 & H4 & H5 & H6 & _).
    set (w1 := wrun w0 (map WAndReturn more)) in *.
    assert (HR : R w1 {| ss_clauses := []; ss_default := Some {| sc_cond := CAlways; sc_results := r0 :: more; sc_pos := 0 |};
                         ss_nout := cf_nout cf |}).
    { constructor; cbn [ss_clauses ss_default ss_nout].
      - rewrite H2. constructor.
      - rewrite H2. constructor.
      - rewrite H3, H2. cbn [w0 create_when w_default w_matches]. split; [|intros []].
        eexists. split; [exact H6|]. cbn [fresh_m m_cond m_results m_cur sc_cond sc_results sc_pos]. repeat split. right.
        simpl. destruct (length more); reflexivity.
      - rewrite H4. reflexivity. }
    exact (clauses_fold (cf_clauses cf) w1 _ HR).
  - destruct (cf_first_when cf) as [[[es r] more]|] eqn:Ef.
    + (* mocker.When(es).Return(r).AndReturn(more...) first, no default *)
      destruct (Nat.eqb (cf_nout cf) 0) eqn:En.
      * (* result-less target: the EmptyMatch default exists, then the clause *)
        set (wb := {| w_store := [fresh_m CEmpty []]; w_matches := []; w_default := Some 0%nat; w_cur := Some 0%nat; w_nout := cf_nout cf |}).
        assert (HRb : R wb {| ss_clauses := []; ss_default := Some {| sc_cond := CEmpty; sc_results := []; sc_pos := 0 |}; ss_nout := cf_nout cf |}).
        { constructor; cbn; try constructor; auto. eexists. split; [reflexivity|]. repeat split. now left. }
        pose proof (clause_step wb _ {| cc_kind := KWhen es; cc_first := r; cc_more := more |} HRb) as H1.
        cbn [ss_clauses ss_default ss_nout app kind_cond cc_kind cc_first cc_more] in H1.
        assert (E : wrun (create_when (cf_nout cf) (CrWhen es)) (WReturn r :: map WAndReturn more) =
                    wrun wb (clause_ops {| cc_kind := KWhen es; cc_first := r; cc_more := more |})).
        { unfold create_when. rewrite En. reflexivity. }
        rewrite E.
        exact (clauses_fold (cf_clauses cf) _ _ H1).
      * set (wb := {| w_store := []; w_matches := []; w_default := None; w_cur := None; w_nout := cf_nout cf |}).
        assert (HRb : R wb {| ss_clauses := []; ss_default := None; ss_nout := cf_nout cf |}).
        { constructor; cbn; try constructor; auto. }
        pose proof (clause_step wb _ {| cc_kind := KWhen es; cc_first := r; cc_more := more |} HRb) as H1.
        cbn [ss_clauses ss_default ss_nout app kind_cond cc_kind cc_first cc_more] in H1.
        assert (E : wrun (create_when (cf_nout cf) (CrWhen es)) (WReturn r :: map WAndReturn more) =
                    wrun wb (clause_ops {| cc_kind := KWhen es; cc_first := r; cc_more := more |})).
        { unfold create_when. rewrite En. reflexivity. }
        rewrite E.
        exact (clauses_fold (cf_clauses cf) _ _ H1).
    + (* no default, no first When: only possible start is Returns()/Return() on a result-less target or an empty When *)
      assert (HRb : R (create_when (cf_nout cf) CrReturns)
                      {| ss_clauses := [];
                         ss_default := if Nat.eqb (cf_nout cf) 0 then Some {| sc_cond := CEmpty; sc_results := []; sc_pos := 0 |} else None;
                         ss_nout := cf_nout cf |}).
      { unfold create_when. destruct (Nat.eqb (cf_nout cf) 0); constructor; cbn; try constructor; auto.
        eexists. split; [reflexivity|]. repeat split. now left. }
      exact (clauses_fold (cf_clauses cf) _ _ HRb).
Qed.

(* C04 main theorem: configuration history + any calls = the clause-list specification *)
Theorem invoke_refines_spec cf cs : calls (configure cf) cs = spec_calls (spec_of cf) cs.
Proof. apply calls_sim. apply configure_R. Qed.
