From Coq Require Import List ZArith Bool Lia.
From Goom Require Import Model.MethodMock.
Import ListNotations.
Open Scope Z_scope.

Lemma assoc_remove_same l a : assoc (remove_addr l a) a = None.
Proof. induction l as [|[a' r] t IH]; simpl; [reflexivity|]. destruct (a =? a') eqn:E; [exact IH|]. simpl. rewrite E. exact IH. Qed.

Lemma assoc_remove_other l a b : a <> b -> assoc (remove_addr l a) b = assoc l b.
Proof.
  intros H. induction l as [|[a' r] t IH]; simpl; [reflexivity|]. destruct (a =? a') eqn:E.
  - apply Z.eqb_eq in E. subst a'. rewrite IH. destruct (b =? a) eqn:E2; [apply Z.eqb_eq in E2; congruence|reflexivity].
  - simpl. rewrite IH. reflexivity.
Qed.

Section Facts.
  Variable resolve : nat -> Z.
  Local Notation behaviour := (behaviour resolve).
  Local Notation call := (call resolve).
  Local Notation apply_mock := (apply_mock resolve).
  Local Notation cancel_mock := (cancel_mock resolve).

  (* exactly the methods that resolve to the patched address change; everything else keeps its behaviour *)
  Theorem mock_exact p m r m' :
    behaviour (apply_mock p m r) m' = if resolve m' =? resolve m then Mocked r else behaviour p m'.
  Proof.
    unfold MethodMock.behaviour, MethodMock.apply_mock. simpl. destruct (resolve m' =? resolve m) eqn:E; [reflexivity|].
    rewrite assoc_remove_other; [reflexivity|]. intros H. rewrite H, Z.eqb_refl in E. discriminate.
  Qed.

  (* with distinct addresses for distinct methods: the named method and no other *)
  Corollary mock_only_named p m r m' : (forall a b, resolve a = resolve b -> a = b) ->
    behaviour (apply_mock p m r) m' = if Nat.eqb m' m then Mocked r else behaviour p m'.
  Proof.
    intros Hinj. rewrite mock_exact. destruct (Nat.eqb m' m) eqn:E.
    - apply Nat.eqb_eq in E. subst. rewrite Z.eqb_refl. reflexivity.
    - destruct (resolve m' =? resolve m) eqn:E2; [|reflexivity]. apply Z.eqb_eq in E2. apply Hinj in E2. subst.
      rewrite Nat.eqb_refl in E. discriminate.
  Qed.

  (* every instance, receiver handed over unchanged as the first argument *)
  Theorem all_instances_receiver_unchanged p m r recv x :
    call (apply_mock p m r) m recv x = RanReplacement r recv x.
  Proof. unfold MethodMock.call. rewrite mock_exact, Z.eqb_refl. reflexivity. Qed.

  Theorem other_methods_untouched p m r m' recv x : resolve m' <> resolve m ->
    call (apply_mock p m r) m' recv x = call p m' recv x.
  Proof.
    intros H. unfold MethodMock.call. rewrite mock_exact.
    destruct (resolve m' =? resolve m) eqn:E; [apply Z.eqb_eq in E; contradiction|reflexivity].
  Qed.

  Theorem cancel_restores p m recv x : call (cancel_mock p m) m recv x = RanOriginal m recv x.
  Proof. unfold MethodMock.call, MethodMock.behaviour, MethodMock.cancel_mock. rewrite assoc_remove_same. reflexivity. Qed.

  Theorem cancel_frame p m m' : resolve m' <> resolve m -> behaviour (cancel_mock p m) m' = behaviour p m'.
  Proof. intros H. unfold MethodMock.behaviour, MethodMock.cancel_mock. rewrite assoc_remove_other; [reflexivity|congruence]. Qed.
End Facts.

(* generic instantiations: affected exactly when they share the GC shape *)
Theorem generic_shape shape_of body p inst r inst' :
  (forall s s', body s = body s' -> s = s') ->
  behaviour (resolve_generic shape_of body) (apply_mock (resolve_generic shape_of body) p inst r) inst'
  = if Nat.eqb (shape_of inst') (shape_of inst) then Mocked r else behaviour (resolve_generic shape_of body) p inst'.
Proof.
  intros Hinj. rewrite mock_exact. unfold resolve_generic.
  destruct (Nat.eqb (shape_of inst') (shape_of inst)) eqn:E.
  - apply Nat.eqb_eq in E. rewrite E, Z.eqb_refl. reflexivity.
  - destruct (body (shape_of inst') =? body (shape_of inst)) eqn:E2; [|reflexivity].
    apply Z.eqb_eq in E2. apply Hinj in E2. rewrite E2, Nat.eqb_refl in E. discriminate.
Qed.
