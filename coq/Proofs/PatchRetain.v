(* C01 -- while the entry of a target holds a jump, the patch table entry of that target holds exactly the patch whose
   replacement the jump embeds (the address inside the machine code is invisible to the collector; the table is the root). *)
From Coq Require Import List ZArith Bool Arith Lia.
From Goom Require Import Model.Patch Proofs.PatchProofs.
Import ListNotations.
Open Scope Z_scope.

Record RInv (s : pstate) : Prop := {
  ri_p : PInv s;
  ri_table : forall t pid, table s t = Some pid -> exists p, nth_error (precs s) pid = Some p /\ p_target p = t;
  ri_owned : forall t cb, entry s t = Jump cb ->
             exists pid p, table s t = Some pid /\ nth_error (precs s) pid = Some p /\ p_cb p = cb /\ p_target p = t /\ p_applied p = true
}.

Lemma unpatch_other s pid p t : nth_error (precs s) pid = Some p -> t <> p_target p -> unpatch_entry s pid t = entry s t.
Proof. intros Hp Ht. unfold unpatch_entry. rewrite Hp. destruct (p_applied p); [apply upd_other; exact Ht|reflexivity]. Qed.

Lemma do_patch_rinv s t cb ph : RInv s -> RInv (fst (do_patch s t cb ph)).
Proof.
  intros [HP HT HO]. pose proof HP as [Ic Ii].
  assert (HP' := do_patch_inv s t cb ph HP).
  unfold do_patch in *.
  set (e1 := match table s t with Some old => unpatch_entry s old | None => entry s end) in *.
  (* the entry of t itself is pristine once the table's patch has been unpatched *)
  assert (Ht : e1 t = Pristine).
  { unfold e1. destruct (table s t) as [old|] eqn:Et.
    - destruct (HT _ _ Et) as (p & Hp & Hpt).
      destruct (entry s t) as [|cb0] eqn:Ee.
      + unfold unpatch_entry. rewrite Hp. destruct (p_applied p); [|exact Ee].
        rewrite <- Hpt. rewrite upd_same. exact (Ic _ _ Hp).
      + destruct (HO _ _ Ee) as (pid & p' & Htab & Hp' & _ & _ & Happ). rewrite Et in Htab. inversion Htab; subst pid.
        rewrite Hp in Hp'. inversion Hp'; subst p'.
        unfold unpatch_entry. rewrite Hp, Happ. rewrite <- Hpt, upd_same. exact (Ic _ _ Hp).
    - destruct (entry s t) as [|cb0] eqn:Ee; [reflexivity|].
      destruct (HO _ _ Ee) as (pid & p' & Htab & _). rewrite Et in Htab. discriminate. }
  assert (He1 : forall t', t' <> t -> e1 t' = entry s t').
  { intros t' Hne. unfold e1. destruct (table s t) as [old|] eqn:Et; [|reflexivity].
    destruct (HT _ _ Et) as (p & Hp & Hpt). apply (unpatch_other s old p t' Hp). congruence. }
  rewrite Ht in *. cbn [fst] in *. constructor; cbn [table precs entry].
  - exact HP'.
  - intros t' pid Htab. destruct (Nat.eq_dec t' t) as [->|Hne].
    + rewrite upd_same in Htab. inversion Htab; subst pid. eexists. split.
      * rewrite nth_error_app2 by lia. rewrite Nat.sub_diag. reflexivity.
      * reflexivity.
    + rewrite upd_other in Htab by exact Hne. destruct (HT _ _ Htab) as (p & Hp & Hpt). exists p. split; [|exact Hpt].
      rewrite nth_error_app1; [exact Hp|]. apply nth_error_Some. congruence.
  - intros t' cb' He. destruct (Nat.eq_dec t' t) as [->|Hne].
    + rewrite upd_same in He. inversion He; subst cb'. exists (length (precs s)). eexists. split; [apply upd_same|]. split.
      * rewrite nth_error_app2 by lia. rewrite Nat.sub_diag. reflexivity.
      * repeat split.
    + rewrite upd_other in He by exact Hne. rewrite (He1 _ Hne) in He.
      destruct (HO _ _ He) as (pid & p & Htab & Hp & H1 & H2 & H3). exists pid, p. split; [rewrite upd_other by exact Hne; exact Htab|].
      split; [|repeat split; assumption]. rewrite nth_error_app1; [exact Hp|]. apply nth_error_Some. congruence.
Qed.

Lemma with_mkr_rinv s id m : RInv s -> RInv (with_mkr s id m).
Proof. intros [HP HT HO]. constructor; [apply with_mkr_inv; exact HP|exact HT|exact HO]. Qed.

Lemma mk_patch_rinv s id m cb hw : RInv s -> RInv (mk_patch s id m cb hw).
Proof.
  intros HI. unfold mk_patch. pose proof (do_patch_rinv s (r_target m) cb (r_origin m) HI) as H.
  destruct (do_patch s (r_target m) cb (r_origin m)) as [s1 [pid|]]; cbn [fst] in H; [apply with_mkr_rinv|]; exact H.
Qed.

Lemma p_cancel_rinv s id : RInv s -> RInv (p_cancel s id).
Proof.
  intros HI. pose proof HI as [HP HT HO]. unfold p_cancel. destruct (nth_error (mkrs s) id) as [m|] eqn:Em; [|exact HI].
  constructor; cbn [table precs entry].
  - pose proof (p_cancel_inv s id HP) as H. unfold p_cancel in H. rewrite Em in H. exact H.
  - exact HT.
  - intros t cb He. destruct (r_guard m) as [pid|]; [|exact (HO _ _ He)].
    destruct (unpatch_entry_spec s pid t HP) as [E|E]; rewrite E in He; [exact (HO _ _ He)|discriminate].
Qed.

Lemma p_lookup_rinv s b t : RInv s -> RInv (p_lookup s b t).
Proof.
  intros [HP HT HO]. pose proof (p_lookup_inv s b t HP) as H. unfold p_lookup in *.
  destruct (pcache s b t) as [id|]; [destruct (nth_error (mkrs s) id) as [m|]; [destruct (r_canceled m)|]|];
    constructor; cbn [table precs entry] in *; assumption.
Qed.

Lemma p_reset_rinv n s b : RInv s -> RInv (p_reset n s b).
Proof.
  unfold p_reset. generalize (seq 0 n). intros l. revert s. induction l as [|t l IH]; intros s HI; [exact HI|].
  cbn [fold_left]. apply IH. destruct (pcache s b t); [apply p_cancel_rinv|]; exact HI.
Qed.

Lemma pstep_rinv n s o : RInv s -> RInv (pstep n s o).
Proof.
  intros HI. destruct o as [b t|h k|h|h ph|h|b|h]; cbn [pstep].
  - apply p_lookup_rinv; exact HI.
  - destruct (nth_error (phandles s) h) as [id|]; [|exact HI].
    destruct (nth_error (mkrs s) id) as [m|]; [apply mk_patch_rinv|]; exact HI.
  - destruct (nth_error (phandles s) h) as [id|]; [|exact HI].
    destruct (nth_error (mkrs s) id) as [m|]; [|exact HI].
    destruct (r_has_when m); [exact HI | apply mk_patch_rinv; exact HI].
  - destruct (nth_error (phandles s) h) as [id|]; [|exact HI].
    destruct (nth_error (mkrs s) id) as [m|]; [apply with_mkr_rinv|]; exact HI.
  - destruct (nth_error (phandles s) h) as [id|]; [apply p_cancel_rinv|]; exact HI.
  - apply p_reset_rinv; exact HI.
  - exact HI.
Qed.

Theorem retained_invariant n ops : RInv (prun n pinit ops).
Proof.
  assert (G : forall ops s, RInv s -> RInv (prun n s ops)).
  { induction ops0 as [|o r IH]; intros s HI; [exact HI|]. cbn [prun fold_left]. apply IH. apply pstep_rinv. exact HI. }
  apply G. constructor.
  - constructor; cbn; [intros pid p H; destruct pid; discriminate|intros t cb H; discriminate].
  - cbn. intros t pid H. discriminate.
  - cbn. intros t cb H. discriminate.
Qed.

(* consequence used by C13 too: from a reachable state a patch is never refused as 'already patched' *)
Corollary never_refused n ops t cb ph :
  exists pid, snd (do_patch (prun n pinit ops) t cb ph) = Some pid.
Proof.
  pose proof (retained_invariant n ops) as [HP HT HO]. pose proof HP as [Ic Ii]. set (s := prun n pinit ops) in *.
  unfold do_patch.
  assert (Ht : (match table s t with Some old => unpatch_entry s old | None => entry s end) t = Pristine).
  { destruct (table s t) as [old|] eqn:Et.
    - destruct (HT _ _ Et) as (p & Hp & Hpt).
      destruct (entry s t) as [|cb0] eqn:Ee.
      + unfold unpatch_entry. rewrite Hp. destruct (p_applied p); [|exact Ee]. rewrite <- Hpt, upd_same. exact (Ic _ _ Hp).
      + destruct (HO _ _ Ee) as (pid & p' & Htab & Hp' & _ & _ & Happ). rewrite Et in Htab. inversion Htab; subst pid.
        rewrite Hp in Hp'. inversion Hp'; subst p'. unfold unpatch_entry. rewrite Hp, Happ, <- Hpt, upd_same. exact (Ic _ _ Hp).
    - destruct (entry s t) as [|cb0] eqn:Ee; [reflexivity|].
      destruct (HO _ _ Ee) as (pid & p' & Htab & _). rewrite Et in Htab. discriminate. }
  rewrite Ht. eexists. reflexivity.
Qed.
