(* C05 (concurrent part): every schedule of any number of concurrent callers of one sequenced stub:
   indices in range, never backwards w.r.t. real-time order, sticky at the last element. *)
From Coq Require Import List ZArith Bool Arith Lia.
From Goom Require Import Model.SeqConc.
Import ListNotations.
Open Scope Z_scope.

Definition lfin (e : nat * nat * Z) : nat := fst (fst e).
Definition lstart (e : nat * nat * Z) : nat := snd (fst e).
Definition lidx (e : nat * nat * Z) : Z := snd e.

(* every completed call a that finished before time [st] has idx_a + 1 <= v *)
Definition after_all (dn : list (nat * nat * Z)) (st : nat) (v : Z) : Prop :=
  forall a, In a dn -> (lfin a < st)%nat -> lidx a + 1 <= v.

Definition tinv (n cur : Z) (clk : nat) (dn : list (nat * nat * Z)) (t : cthr) : Prop :=
  (cstart t <= clk)%nat /\
  match cres t with
  | Some i => 0 <= i < n
  | None =>
      ccode t = result_prog \/
      (ccode t = skipn 1 result_prog /\ 0 <= creg t <= cur /\ after_all dn (cstart t) (creg t)) \/
      (ccode t = skipn 2 result_prog /\ 0 <= creg t < n /\ creg t <= cur /\ after_all dn (cstart t) (creg t)) \/
      (ccode t = skipn 3 result_prog /\ 0 <= creg t < n /\ creg t + 1 <= cur /\ after_all dn (cstart t) (creg t))
  end.

Record KInv (n : Z) (c : ccfg) : Prop := {
  ki_cur : 0 <= k_cur c;
  ki_thr : Forall (tinv n (k_cur c) (k_clock c) (k_done c)) (k_thr c);
  ki_log : Forall (fun e => (lstart e <= lfin e <= k_clock c)%nat /\ 0 <= lidx e < n /\ lidx e + 1 <= k_cur c) (k_done c);
  ki_ord : forall a b, In a (k_done c) -> In b (k_done c) -> (lfin a < lstart b)%nat ->
                       lidx a <= lidx b /\ (lidx a = n - 1 -> lidx b = n - 1)
}.

Lemma after_all_mono dn st v e :
  after_all dn st v -> (st <= lfin e)%nat -> after_all (e :: dn) st v.
Proof. intros H Hle a [<-|Hin] Hlt; [lia | now apply H]. Qed.

Lemma tinv_mono n cur cur' clk dn ext t :
  cur <= cur' -> (forall e, In e ext -> (S clk <= lfin e)%nat) ->
  tinv n cur clk dn t -> tinv n cur' (S clk) (ext ++ dn) t.
Proof.
  intros Hc Hext [Hst H]. split; [lia|].
  assert (Ha : forall v, after_all dn (cstart t) v -> after_all (ext ++ dn) (cstart t) v).
  { intros v Hv a Hin Hlt. apply in_app_or in Hin as [Hin|Hin]; [|now apply Hv].
    specialize (Hext _ Hin). lia. }
  destruct (cres t); [exact H|].
  destruct H as [H|[(H1 & H2 & H3)|[(H1 & H2 & H3 & H4)|(H1 & H2 & H3 & H4)]]].
  - left; exact H.
  - right; left. repeat split; auto; lia.
  - right; right; left. repeat split; auto; lia.
  - right; right; right. repeat split; auto; lia.
Qed.

Lemma kstep_inv n c c' : 2 <= n -> KInv n c -> kstep result_prog n c c' -> KInv n c'.
Proof.
  intros Hn HI Hs. destruct Hs as [cur l1 t l2 clk dn Hrun | cur ts clk dn].
  - (* an existing call steps *)
    destruct HI as [Icur Ithr Ilog Iord]. cbn [k_cur k_thr k_clock k_done] in *.
    assert (Ht : tinv n cur clk dn t).
    { rewrite Forall_forall in Ithr. apply Ithr. apply in_or_app. right. now left. }
    apply Forall_app in Ithr as [Hl1 Hl2']. inversion Hl2' as [|? ? _ Hl2]; subst.
    destruct Ht as [Hst Ht]. rewrite Hrun in Ht.
    unfold cstep1. rewrite Hrun.
    destruct Ht as [Hc|[(Hc & Hr & Ha)|[(Hc & Hr & Hr2 & Ha)|(Hc & Hr & Hr2 & Ha)]]]; rewrite Hc; cbn [result_prog skipn].
    + (* CLoad *)
      cbn [cres]. constructor; cbn [k_cur k_thr k_clock k_done].
      * exact Icur.
      * apply Forall_app. split; [|constructor].
        -- eapply Forall_impl; [|exact Hl1]. intros x Hx. apply (tinv_mono n cur cur clk dn [] x); [lia|intros ? []|exact Hx].
        -- split; [cbn; lia|]. cbn [cres ccode creg cstart]. right; left. split; [reflexivity|]. split; [lia|].
           intros a Hin Hlt. rewrite Forall_forall in Ilog. destruct (Ilog _ Hin) as (_ & _ & H3). exact H3.
        -- eapply Forall_impl; [|exact Hl2]. intros x Hx. apply (tinv_mono n cur cur clk dn [] x); [lia|intros ? []|exact Hx].
      * eapply Forall_impl; [|exact Ilog]. cbn beta. intros e (H1 & H2 & H3). repeat split; lia.
      * exact Iord.
    + (* CRetIfGe reg len (len-1) *)
      cbn [ceval]. destruct (creg t >=? n) eqn:E.
      * (* clamp: return n-1 *)
        apply Z.geb_le in E. cbn [cres cstart].
        set (e := (S clk, cstart t, n - 1)).
        constructor; cbn [k_cur k_thr k_clock k_done].
        -- exact Icur.
        -- apply Forall_app. split; [|constructor].
           ++ eapply Forall_impl; [|exact Hl1]. intros x Hx.
              apply (tinv_mono n cur cur clk dn [e] x); [lia| |exact Hx]. intros ? [<-|[]]. cbn. lia.
           ++ split; [cbn; lia|]. cbn [cres]. lia.
           ++ eapply Forall_impl; [|exact Hl2]. intros x Hx.
              apply (tinv_mono n cur cur clk dn [e] x); [lia| |exact Hx]. intros ? [<-|[]]. cbn. lia.
        -- constructor; [unfold e, lfin, lstart, lidx; cbn; repeat split; lia|].
           eapply Forall_impl; [|exact Ilog]. cbn beta. intros x (H1 & H2 & H3). repeat split; lia.
        -- intros a b [<-|Ha'] [<-|Hb'] Hlt.
           ++ unfold e, lfin, lstart in Hlt. cbn in Hlt. lia.
           ++ rewrite Forall_forall in Ilog. destruct (Ilog _ Hb') as (H1 & _ & _).
              exfalso. unfold e, lfin in Hlt. cbn in Hlt. unfold lfin in H1. lia.
           ++ unfold e, lidx, lstart in *. cbn [fst snd] in *.
              rewrite Forall_forall in Ilog. destruct (Ilog _ Ha') as (_ & H2 & _). split; lia.
           ++ apply Iord; assumption.
      * cbn [cres]. apply Z.geb_leb in E || idtac.
        assert (Hlt : creg t < n) by (destruct (Z.geb_spec (creg t) n); [discriminate | lia]).
        constructor; cbn [k_cur k_thr k_clock k_done].
        -- exact Icur.
        -- apply Forall_app. split; [|constructor].
           ++ eapply Forall_impl; [|exact Hl1]. intros x Hx. apply (tinv_mono n cur cur clk dn [] x); [lia|intros ? []|exact Hx].
           ++ split; [cbn; lia|]. cbn [cres ccode creg cstart]. right; right; left. repeat split; auto; lia.
           ++ eapply Forall_impl; [|exact Hl2]. intros x Hx. apply (tinv_mono n cur cur clk dn [] x); [lia|intros ? []|exact Hx].
        -- eapply Forall_impl; [|exact Ilog]. cbn beta. intros e (H1 & H2 & H3). repeat split; lia.
        -- exact Iord.
    + (* CAdd 1 *)
      cbn [cres]. constructor; cbn [k_cur k_thr k_clock k_done].
      * lia.
      * apply Forall_app. split; [|constructor].
        -- eapply Forall_impl; [|exact Hl1]. intros x Hx. apply (tinv_mono n cur (cur + 1) clk dn [] x); [lia|intros ? []|exact Hx].
        -- split; [cbn; lia|]. cbn [cres ccode creg cstart]. right; right; right. repeat split; auto; lia.
        -- eapply Forall_impl; [|exact Hl2]. intros x Hx. apply (tinv_mono n cur (cur + 1) clk dn [] x); [lia|intros ? []|exact Hx].
      * eapply Forall_impl; [|exact Ilog]. cbn beta. intros e (H1 & H2 & H3). repeat split; lia.
      * exact Iord.
    + (* CRet reg *)
      cbn [ceval cres cstart].
      set (e := (S clk, cstart t, creg t)).
      constructor; cbn [k_cur k_thr k_clock k_done].
      * exact Icur.
      * apply Forall_app. split; [|constructor].
        -- eapply Forall_impl; [|exact Hl1]. intros x Hx.
           apply (tinv_mono n cur cur clk dn [e] x); [lia| |exact Hx]. intros ? [<-|[]]. cbn. lia.
        -- split; [cbn; lia|]. cbn [cres]. lia.
        -- eapply Forall_impl; [|exact Hl2]. intros x Hx.
           apply (tinv_mono n cur cur clk dn [e] x); [lia| |exact Hx]. intros ? [<-|[]]. cbn. lia.
      * constructor; [unfold e, lfin, lstart, lidx; cbn; repeat split; lia|].
        eapply Forall_impl; [|exact Ilog]. cbn beta. intros x (H1 & H2 & H3). repeat split; lia.
      * intros a b [<-|Ha'] [<-|Hb'] Hlt.
        -- unfold e, lfin, lstart in Hlt. cbn in Hlt. lia.
        -- rewrite Forall_forall in Ilog. destruct (Ilog _ Hb') as (H1 & _ & _).
           exfalso. unfold e, lfin in Hlt. cbn in Hlt. unfold lfin in H1. lia.
        -- unfold e, lidx, lstart in *. cbn [fst snd] in *.
           specialize (Ha a Ha' Hlt). unfold lidx in Ha. split; lia.
        -- apply Iord; assumption.
  - (* spawn *)
    destruct HI as [Icur Ithr Ilog Iord]. cbn [k_cur k_thr k_clock k_done] in *.
    constructor; cbn [k_cur k_thr k_clock k_done].
    + exact Icur.
    + constructor.
      * split; [cbn; lia|]. cbn [cres ccode]. left. reflexivity.
      * eapply Forall_impl; [|exact Ithr]. intros x Hx. apply (tinv_mono n cur cur clk dn [] x); [lia|intros ? []|exact Hx].
    + eapply Forall_impl; [|exact Ilog]. cbn beta. intros e (H1 & H2 & H3). repeat split; lia.
    + exact Iord.
Qed.

Lemma kreach_inv n c c' : 2 <= n -> KInv n c -> kreach result_prog n c c' -> KInv n c'.
Proof.
  intros Hn HI Hr. induction Hr as [|c1 c2 c3 _ IH Hs]; [exact HI|].
  apply (kstep_inv n c2 c3); auto.
Qed.

Lemma kinit_inv n : KInv n kinit.
Proof. constructor; cbn; try constructor; try lia. Qed.

(* MAIN: any number of calls, started at any time, under every schedule *)
Theorem conc_sequence_safe n c :
  2 <= n -> kreach result_prog n kinit c ->
  (forall e, In e (k_done c) -> 0 <= lidx e < n) /\
  (forall a b, In a (k_done c) -> In b (k_done c) -> (lfin a < lstart b)%nat ->
               lidx a <= lidx b /\ (lidx a = n - 1 -> lidx b = n - 1)).
Proof.
  intros Hn Hr. destruct (kreach_inv n _ _ Hn (kinit_inv n) Hr) as [_ _ Ilog Iord].
  split; [|exact Iord]. intros e He. rewrite Forall_forall in Ilog. now destruct (Ilog _ He) as (_ & H & _).
Qed.

(* a lost update (Store of loaded+1 instead of Add) is refuted by a 3-call schedule *)
Definition store_prog : list cinstr :=
  [ CLoad; CRetIfGe CReg CLen (CMinus CLen (CConst 1)); CStore (CPlus CReg (CConst 1)); CRet CReg ].
Definition store_witness : list (option nat) :=
  [None; Some 0;                                   (* A starts and loads 0 *)
   None; Some 1; Some 1; Some 1; Some 1;           (* B1 runs to completion: returns 0 *)
   None; Some 2; Some 2; Some 2; Some 2;           (* B2: returns 1 *)
   None; Some 3; Some 3; Some 3; Some 3;           (* B3: returns 2 = last *)
   Some 0; Some 0; Some 0;                         (* A stores 1 (lost update) and returns 0 *)
   None; Some 4; Some 4; Some 4; Some 4]%nat.      (* C starts after B3 finished and gets 1 *)
Theorem store_prog_refuted :
  kcfg_ok 3 (fold_left (ksched_step store_prog 3) store_witness kinit) = false.
Proof. vm_compute. reflexivity. Qed.

Example result_prog_same_schedule_ok :
  kcfg_ok 3 (fold_left (ksched_step result_prog 3) store_witness kinit) = true.
Proof. vm_compute. reflexivity. Qed.
