(* C08 proofs: under the single-holder discipline, whenever no mocker remembers a value for v,
   v holds the value the program itself last gave it (= the value before the first mock); every remembered
   value is that value. Cancel / Reset therefore restore the pre-mock value however often Set/Apply ran. *)
From Coq Require Import List ZArith Bool Arith Lia.
From Goom Require Import Model.VarMock.
Import ListNotations.
Open Scope Z_scope.

(* ---------- list helpers ---------- *)
Lemma nth_error_set_nth {A} (l : list A) n k x :
  nth_error (set_nth n l x) k =
  if Nat.eqb k n then (if Nat.ltb n (length l) then Some x else None) else nth_error l k.
Proof.
  revert n k; induction l as [|y l IH]; intros n k.
  - assert (E : set_nth n (@nil A) x = []) by (destruct n; reflexivity). rewrite E.
    cbn [length]. rewrite Nat.ltb_irrefl || idtac.
    assert (E2 : (n <? 0)%nat = false) by (apply Nat.ltb_ge; lia). rewrite E2.
    destruct (Nat.eqb k n); destruct k; reflexivity.
  - destruct n as [|n]; destruct k as [|k]; cbn [set_nth nth_error length]; try reflexivity.
    rewrite IH. cbn [Nat.eqb]. destruct (Nat.eqb k n); [|reflexivity].
    change (S n <? S (length l))%nat with (n <? length l)%nat. reflexivity.
Qed.

Lemma set_nth_length {A} (l : list A) n x : length (set_nth n l x) = length l.
Proof. revert n; induction l as [|y l IH]; intros [|n]; cbn; auto. Qed.

(* ---------- Prop versions of the boolean predicates ---------- *)
Definition HFree (s : vstate) (v : nat) : Prop :=
  forall id m, get_m s id = Some m -> m_var m = v -> m_origin m = None.

Definition Sole (s : vstate) (id v : nat) : Prop :=
  forall id' m, get_m s id' = Some m -> id' <> id -> m_var m = v -> m_origin m = None.

Lemma holder_free_spec s v : holder_free s v = true <-> HFree s v.
Proof.
  unfold holder_free, HFree, get_m. rewrite forallb_forall. split.
  - intros H id m Hn Hv. apply nth_error_In in Hn. specialize (H _ Hn).
    rewrite Hv, Nat.eqb_refl in H. cbn in H. destruct (m_origin m); [discriminate|reflexivity].
  - intros H m Hin. apply In_nth_error in Hin as [id Hid].
    destruct (Nat.eqb (m_var m) v) eqn:E; [|reflexivity]. apply Nat.eqb_eq in E.
    rewrite (H _ _ Hid E). reflexivity.
Qed.

Lemma combine_seq_nth {A} (l : list A) k i m :
  In (i, m) (combine (seq k (length l)) l) <-> (k <= i)%nat /\ nth_error l (i - k) = Some m.
Proof.
  revert k; induction l as [|y l IH]; intros k; cbn [length seq combine].
  - split; [intros [] | intros [_ H]; destruct (i - k)%nat; discriminate].
  - cbn [In]. rewrite IH. split.
    + intros [H|[H1 H2]].
      * inversion H; subst. split; [lia|]. rewrite Nat.sub_diag. reflexivity.
      * split; [lia|]. replace (i - k)%nat with (S (i - S k)) by lia. exact H2.
    + intros [H1 H2]. destruct (Nat.eq_dec i k) as [->|Hne].
      * left. rewrite Nat.sub_diag in H2. cbn in H2. congruence.
      * right. split; [lia|]. replace (i - k)%nat with (S (i - S k)) in H2 by lia. exact H2.
Qed.

Lemma sole_holder_spec s id v : sole_holder s id v = true <-> Sole s id v.
Proof.
  unfold sole_holder, Sole, get_m. rewrite forallb_forall. split.
  - intros H id' m Hn Hne Hv.
    assert (Hin : In (id', m) (combine (seq 0 (length (mockers s))) (mockers s))).
    { apply combine_seq_nth. split; [lia|]. now rewrite Nat.sub_0_r. }
    specialize (H _ Hin). cbn [fst snd] in H.
    apply Nat.eqb_neq in Hne. rewrite Hne, Hv, Nat.eqb_refl in H. cbn in H.
    destruct (m_origin m); [discriminate|reflexivity].
  - intros H [id' m] Hin. apply combine_seq_nth in Hin as [_ Hn]. rewrite Nat.sub_0_r in Hn.
    cbn [fst snd]. destruct (Nat.eqb id' id) eqn:E1; [reflexivity|].
    destruct (Nat.eqb (m_var m) v) eqn:E2; [|reflexivity].
    apply Nat.eqb_neq in E1. apply Nat.eqb_eq in E2. rewrite (H _ _ Hn E1 E2). reflexivity.
Qed.

(* ---------- the invariant ---------- *)
Definition Inv (s : vstate) (base : nat -> Z) : Prop :=
  (forall id m o, get_m s id = Some m -> m_origin m = Some o -> o = base (m_var m)) /\
  (forall v, HFree s v -> cells s v = base v).

Lemma upd_same {A} (f : nat -> A) k v : upd f k v k = v.
Proof. unfold upd. now rewrite Nat.eqb_refl. Qed.
Lemma upd_other {A} (f : nat -> A) k v x : x <> k -> upd f k v x = f x.
Proof. unfold upd. intros H. apply Nat.eqb_neq in H. now rewrite H. Qed.

Lemma get_m_lt s id m : get_m s id = Some m -> (id < length (mockers s))%nat.
Proof. unfold get_m. intros H. apply nth_error_Some. congruence. Qed.

(* Cancel preserves the invariant (with or without a remembered value) *)
Lemma cancel_inv s base id : Inv s base -> Inv (cancel_m s id) base.
Proof.
  intros [Ia Ib]. unfold cancel_m. destruct (get_m s id) as [m|] eqn:Hm; [|split; assumption].
  pose proof (get_m_lt _ _ _ Hm) as Hlt. apply Nat.ltb_lt in Hlt.
  split.
  - intros id' m' o. unfold get_m. cbn [mockers]. rewrite nth_error_set_nth, Hlt.
    destruct (Nat.eqb id' id) eqn:E.
    + intros H; inversion H; subst. cbn. discriminate.
    + intros H1 H2. exact (Ia _ _ _ H1 H2).
  - intros v Hf. cbn [cells].
    assert (Hfree_other : forall id' m', get_m s id' = Some m' -> id' <> id -> m_var m' = v -> m_origin m' = None).
    { intros id' m' H1 Hne Hv. apply (Hf id' m'); [|exact Hv].
      unfold get_m. cbn [mockers]. rewrite nth_error_set_nth.
      apply Nat.eqb_neq in Hne. rewrite Hne. exact H1. }
    destruct (m_origin m) as [o|] eqn:Ho.
    + destruct (Nat.eq_dec (m_var m) v) as [Hv|Hv].
      * subst v. rewrite upd_same. exact (Ia _ _ _ Hm Ho).
      * rewrite upd_other by congruence. apply Ib.
        intros id' m' H1 Hv'. destruct (Nat.eq_dec id' id) as [->|Hne].
        -- rewrite Hm in H1. inversion H1; subst. contradiction.
        -- apply (Hfree_other id' m'); auto.
    + apply Ib. intros id' m' H1 Hv'. destruct (Nat.eq_dec id' id) as [->|Hne].
      * rewrite Hm in H1. inversion H1; subst. exact Ho.
      * apply (Hfree_other id' m'); auto.
Qed.

Lemma set_inv s base id x :
  (forall m, get_m s id = Some m -> Sole s id (m_var m)) -> Inv s base -> Inv (set_m s id x) base.
Proof.
  intros Hsole [Ia Ib]. unfold set_m. destruct (get_m s id) as [m|] eqn:Hm; [|split; assumption].
  pose proof (get_m_lt _ _ _ Hm) as Hlt. apply Nat.ltb_lt in Hlt.
  specialize (Hsole m eq_refl).
  split.
  - intros id' m' o. unfold get_m. cbn [mockers]. rewrite nth_error_set_nth, Hlt.
    destruct (Nat.eqb id' id) eqn:E.
    + intros H; inversion H; subst. cbn [m_origin m_var]. destruct (m_origin m) as [o'|] eqn:Ho.
      * intros H2; inversion H2; subst. exact (Ia _ _ _ Hm Ho).
      * intros H2; inversion H2; subst. apply Ib.
        intros id2 m2 H1 Hv. destruct (Nat.eq_dec id2 id) as [->|Hne].
        -- rewrite Hm in H1. inversion H1; subst. exact Ho.
        -- exact (Hsole _ _ H1 Hne Hv).
    + intros H1 H2. exact (Ia _ _ _ H1 H2).
  - intros v Hf. cbn [cells].
    (* the mocker itself now remembers a value for its variable, so v is another variable *)
    assert (Hv : v <> m_var m).
    { intros ->. specialize (Hf id _ ltac:(unfold get_m; cbn [mockers]; rewrite nth_error_set_nth, Nat.eqb_refl, Hlt; reflexivity) eq_refl).
      cbn [m_origin] in Hf. destruct (m_origin m); discriminate. }
    rewrite upd_other by exact Hv. apply Ib.
    intros id' m' H1 Hv'. destruct (Nat.eq_dec id' id) as [->|Hne].
    + rewrite Hm in H1. inversion H1; subst. contradiction.
    + apply (Hf id' m'); [|exact Hv']. unfold get_m. cbn [mockers]. rewrite nth_error_set_nth.
      apply Nat.eqb_neq in Hne. rewrite Hne. exact H1.
Qed.

Lemma fresh_inv s base b v :
  Inv s base ->
  Inv {| cells := cells s;
         mockers := mockers s ++ [{| m_var := v; m_origin := None; m_canceled := false |}];
         cache := upd (cache s) b (upd (cache s b) v (Some (length (mockers s))));
         handles := handles s ++ [length (mockers s)] |} base.
Proof.
  intros [Ia Ib]. split.
  - intros id m o. unfold get_m. cbn [mockers]. intros H1 H2.
    destruct (Nat.lt_ge_cases id (length (mockers s))) as [Hlt|Hge].
    + rewrite nth_error_app1 in H1 by exact Hlt. exact (Ia _ _ _ H1 H2).
    + rewrite nth_error_app2 in H1 by exact Hge.
      destruct (id - length (mockers s))%nat as [|k]; cbn in H1; [|destruct k; discriminate].
      inversion H1; subst. discriminate.
  - intros w Hf. cbn [cells]. apply Ib. intros id m H1 Hv. apply (Hf id m); [|exact Hv].
    unfold get_m in *. cbn [mockers]. rewrite nth_error_app1; [exact H1|]. apply nth_error_Some. congruence.
Qed.

Lemma lookup_inv s base b v : Inv s base -> Inv (lookup s b v) base.
Proof.
  intros HI. unfold lookup.
  destruct (cache s b v) as [id|]; [|apply fresh_inv; exact HI].
  destruct (get_m s id) as [m|]; [|apply fresh_inv; exact HI].
  destruct (m_canceled m); [apply fresh_inv; exact HI|].
  destruct HI as [Ia Ib]. split; [exact Ia|]. intros w Hf. apply Ib. exact Hf.
Qed.

Lemma reset_inv nvars s base b : Inv s base -> Inv (reset nvars s b) base.
Proof.
  unfold reset. generalize (seq 0 nvars) as l. intros l. revert s.
  induction l as [|v l IH]; intros s HI; [exact HI|].
  cbn [fold_left]. apply IH. destruct (cache s b v); [apply cancel_inv|]; exact HI.
Qed.

Lemma write_inv s base v x :
  HFree s v ->
  Inv s base ->
  Inv {| cells := upd (cells s) v x; mockers := mockers s; cache := cache s; handles := handles s |} (upd base v x).
Proof.
  intros Hf [Ia Ib]. split.
  - intros id m o H1 H2. change (get_m s id = Some m) in H1.
    destruct (Nat.eq_dec (m_var m) v) as [Hv|Hv].
    + rewrite (Hf _ _ H1 Hv) in H2. discriminate.
    + rewrite upd_other by exact Hv. exact (Ia _ _ _ H1 H2).
  - intros w Hw. cbn [cells]. destruct (Nat.eq_dec w v) as [->|Hne].
    + now rewrite !upd_same.
    + rewrite !upd_other by exact Hne. apply Ib. exact Hw.
Qed.

Lemma gstep_inv nvars s base o :
  ok_op s o = true -> Inv s base -> Inv (fst (gstep nvars (s, base) o)) (snd (gstep nvars (s, base) o)).
Proof.
  intros Hok HI. destruct o as [b v|h x|h|b|v x]; cbn [gstep fst snd vstep].
  - apply lookup_inv; exact HI.
  - destruct (nth_error (handles s) h) as [id|] eqn:Hh; [|exact HI].
    apply set_inv; [|exact HI]. intros m Hm. cbn [ok_op] in Hok. rewrite Hh, Hm in Hok.
    apply sole_holder_spec. exact Hok.
  - destruct (nth_error (handles s) h); [apply cancel_inv|]; exact HI.
  - apply reset_inv; exact HI.
  - apply write_inv; [|exact HI]. apply holder_free_spec. exact Hok.
Qed.

(* MAIN: every history that respects the discipline keeps the invariant *)
Theorem restore_first nvars c0 ops s base :
  grun nvars (vinit c0, c0) ops = Some (s, base) -> Inv s base.
Proof.
  assert (G : forall ops g, Inv (fst g) (snd g) -> forall s base, grun nvars g ops = Some (s, base) -> Inv s base).
  { induction ops0 as [|o r IH]; intros [s0 b0] HI s1 b1 H; cbn [grun] in H.
    - inversion H; subst. exact HI.
    - cbn [fst] in H. destruct (ok_op s0 o) eqn:Hok; [|discriminate].
      apply (IH (gstep nvars (s0, b0) o)); [|exact H]. apply gstep_inv; assumption. }
  intros H. apply (G ops (vinit c0, c0)); [|exact H].
  split.
  - intros id m o Hm. unfold get_m, vinit in Hm. cbn in Hm. destruct id; discriminate.
  - intros v _. reflexivity.
Qed.

(* after a Cancel through the only remembering mocker, the variable holds the pre-mock value *)
Corollary cancel_restores s base h id m :
  Inv s base -> nth_error (handles s) h = Some id -> get_m s id = Some m -> Sole s id (m_var m) ->
  cells (vstep 0 s (VCancel h)) (m_var m) = base (m_var m).
Proof.
  intros HI Hh Hm Hs. cbn [vstep]. rewrite Hh.
  destruct (cancel_inv s base id HI) as [_ Ib]. apply Ib.
  intros id' m' H1 Hv. unfold cancel_m in H1. rewrite Hm in H1. unfold get_m in H1. cbn [mockers] in H1.
  rewrite nth_error_set_nth in H1. destruct (Nat.eqb id' id) eqn:E.
  - pose proof (get_m_lt _ _ _ Hm) as Hlt. apply Nat.ltb_lt in Hlt. rewrite Hlt in H1.
    inversion H1; subst. reflexivity.
  - apply Nat.eqb_neq in E. exact (Hs _ _ H1 E Hv).
Qed.

(* cancelling a mock that was never set leaves every variable untouched *)
Theorem cancel_never_set_untouched s id m :
  get_m s id = Some m -> m_origin m = None -> cells (cancel_m s id) = cells s.
Proof. intros Hm Ho. unfold cancel_m. rewrite Hm, Ho. reflexivity. Qed.

(* a second Cancel is a no-op on the variables *)
Theorem cancel_twice s id : cells (cancel_m (cancel_m s id) id) = cells (cancel_m s id).
Proof.
  unfold cancel_m at 1. destruct (get_m (cancel_m s id) id) as [m'|] eqn:Hm'; [|reflexivity].
  unfold cancel_m in Hm'. destruct (get_m s id) as [m|] eqn:Hm.
  - unfold get_m in Hm'. cbn [mockers] in Hm'. rewrite nth_error_set_nth, Nat.eqb_refl in Hm'.
    pose proof (get_m_lt _ _ _ Hm) as Hlt. apply Nat.ltb_lt in Hlt. rewrite Hlt in Hm'.
    inversion Hm'; subst. reflexivity.
  - rewrite Hm in Hm'. discriminate.
Qed.

(* readers see the mock; other variables are untouched by Set *)
Theorem readers_see_mock s id m x :
  get_m s id = Some m -> cells (set_m s id x) (m_var m) = x /\
  (forall w, w <> m_var m -> cells (set_m s id x) w = cells s w).
Proof.
  intros Hm. unfold set_m. rewrite Hm. cbn [cells]. split; [apply upd_same|].
  intros w Hw. now apply upd_other.
Qed.

(* Cancel touches at most its own variable *)
Theorem cancel_frame s id m w :
  get_m s id = Some m -> w <> m_var m -> cells (cancel_m s id) w = cells s w.
Proof.
  intros Hm Hw. unfold cancel_m. rewrite Hm. cbn [cells].
  destruct (m_origin m); [now apply upd_other | reflexivity].
Qed.

Theorem lookup_frame s b v : cells (lookup s b v) = cells s.
Proof.
  unfold lookup. destruct (cache s b v) as [id|]; [|reflexivity].
  destruct (get_m s id) as [m|]; [|reflexivity]. destruct (m_canceled m); reflexivity.
Qed.

(* within a builder a second lookup continues the live mocker, and starts afresh after a cancel *)
Theorem lookup_continues s b v id m :
  cache s b v = Some id -> get_m s id = Some m -> m_canceled m = false ->
  handles (lookup s b v) = handles s ++ [id] /\ mockers (lookup s b v) = mockers s.
Proof. intros Hc Hm Hcn. unfold lookup. rewrite Hc, Hm, Hcn. split; reflexivity. Qed.
