(* Proofs about the jump encoders (C15): decoding and running the emitted bytes on the mini ISAs. *)
From Goom Require Import Base.MachineInt ISA.X86Mini Model.JumpEnc.
Open Scope Z_scope.

(* ---------- congruence helpers over an abstract modulus ---------- *)
Definition congM (M a b : Z) : Prop := exists k, a = b + k * M.

Lemma congM_mod M a b : 0 < M -> congM M a b -> a mod M = b mod M.
Proof.
  intros HM [k ->]. rewrite Z.mod_add by lia. reflexivity.
Qed.

Lemma mod_congM M a : 0 < M -> congM M (a mod M) a.
Proof.
  intros HM. exists (- (a / M)). rewrite (Z.mod_eq a M) by lia. ring.
Qed.

Lemma congM_trans M a b c : congM M a b -> congM M b c -> congM M a c.
Proof. intros [k ->] [j ->]. exists (k + j). ring. Qed.

Lemma congM_sym M a b : congM M a b -> congM M b a.
Proof. intros [k ->]. exists (- k). ring. Qed.

Lemma congM_add M a b c d : congM M a b -> congM M c d -> congM M (a + c) (b + d).
Proof. intros [k ->] [j ->]. exists (k + j). ring. Qed.

Lemma congM_sub M a b c d : congM M a b -> congM M c d -> congM M (a - c) (b - d).
Proof. intros [k ->] [j ->]. exists (k - j). ring. Qed.

Lemma congM_refl M a : congM M a a.
Proof. exists 0. ring. Qed.

Lemma congM_neg M a b : congM M a b -> congM M (- a) (- b).
Proof. intros [k ->]. exists (- k). ring. Qed.

Lemma congM_weaken M N a b : (exists q, M = q * N) -> congM M a b -> congM N a b.
Proof. intros [q ->] [k ->]. exists (k * q). ring. Qed.

Lemma wrapu_cong n x : 0 <= n -> congM (2 ^ n) (wrapu n x) x.
Proof. intros; unfold wrapu; apply mod_congM; apply pow2_pos; lia. Qed.

Lemma wraps_congM n x : 1 <= n -> congM (2 ^ n) (wraps n x) x.
Proof.
  intros Hn. unfold wraps.
  destruct (mod_congM (2 ^ n) (x + 2 ^ (n - 1)) (pow2_pos n ltac:(lia))) as [k Hk].
  exists k. lia.
Qed.

Lemma wrapu_unique n x d : 0 <= n -> 0 <= d < 2 ^ n -> congM (2 ^ n) x d -> wrapu n x = d.
Proof.
  intros Hn Hd Hc. unfold wrapu.
  rewrite (congM_mod _ _ _ (pow2_pos n Hn) Hc). apply Z.mod_small; lia.
Qed.

Lemma wraps_unique n x d : 1 <= n -> - 2 ^ (n - 1) <= d < 2 ^ (n - 1) -> congM (2 ^ n) x d -> wraps n x = d.
Proof.
  intros Hn Hd Hc. unfold wraps.
  assert (H2 : 2 ^ n = 2 * 2 ^ (n - 1)).
  { replace n with (Z.succ (n - 1)) at 1 by lia. rewrite Z.pow_succ_r; lia. }
  assert (Hc' : congM (2 ^ n) (x + 2 ^ (n - 1)) (d + 2 ^ (n - 1))).
  { apply congM_add; [exact Hc | apply congM_refl]. }
  rewrite (congM_mod _ _ _ (pow2_pos n ltac:(lia)) Hc').
  rewrite Z.mod_small; lia.
Qed.

Lemma cong64_32 a b : congM (2 ^ 64) a b -> congM (2 ^ 32) a b.
Proof. apply congM_weaken. exists (2 ^ 32). reflexivity. Qed.

(* ---------- fetch / code_at ---------- *)
Lemma fetch_app m a n k : fetch m a (n + k) = fetch m a n ++ fetch m (a + Z.of_nat n) k.
Proof.
  revert a; induction n as [|n IH]; intros a.
  - simpl. now rewrite Z.add_0_r.
  - cbn [Nat.add fetch app]. rewrite IH.
    replace (a + 1 + Z.of_nat n) with (a + Z.of_nat (S n)) by lia. reflexivity.
Qed.

Lemma fetch_length m a n : length (fetch m a n) = n.
Proof. revert a; induction n as [|n IH]; intros a; simpl; [reflexivity | now rewrite IH]. Qed.

Lemma code_at_app m a c1 c2 :
  code_at m a (c1 ++ c2) -> code_at m a c1 /\ code_at m (a + lenZ c1) c2.
Proof.
  unfold code_at, lenZ. rewrite app_length, fetch_app. intros H.
  apply app_inj_tail_iff || idtac.
  assert (Hl : length (fetch m a (length c1)) = length c1) by apply fetch_length.
  split.
  - apply (f_equal (firstn (length c1))) in H.
    rewrite firstn_app, firstn_app in H.
    rewrite Hl, Nat.sub_diag in H. cbn [firstn] in H. rewrite !app_nil_r in H.
    rewrite firstn_all2 in H by lia. rewrite firstn_all in H. exact H.
  - apply (f_equal (skipn (length c1))) in H.
    rewrite skipn_app, skipn_app in H.
    rewrite Hl, Nat.sub_diag in H. cbn [skipn] in H.
    rewrite skipn_all2 in H by lia. rewrite skipn_all in H. exact H.
Qed.

Lemma fetch_prefix m a c n : code_at m a c -> (length c <= n)%nat ->
  exists r, fetch m a n = c ++ r.
Proof.
  intros H Hn. replace n with (length c + (n - length c))%nat by lia.
  rewrite fetch_app. unfold code_at in H. rewrite H. eauto.
Qed.

(* the decoder only looks at a prefix *)
Lemma decode_prefix mode c r x : decode mode c = Some x -> decode mode (c ++ r) = Some x.
Proof.
  unfold decode.
  destruct c as [|b0 c]; [discriminate|]. cbn [app].
  destruct (b0 =? 144); [auto|].
  destruct ((mode =? 64) && (b0 =? 72)).
  { do 9 (destruct c as [|? c]; [discriminate|]). cbn [app]. auto. }
  destruct ((mode =? 32) && (184 <=? b0) && (b0 <=? 191)).
  { do 4 (destruct c as [|? c]; [discriminate|]). cbn [app]. auto. }
  destruct (b0 =? 255).
  { destruct c as [|m c]; [discriminate|]. cbn [app].
    destruct ((Z.land m 248 =? 32) && negb (Z.land m 7 =? 4) && negb (Z.land m 7 =? 5)); [auto|].
    destruct ((mode =? 64) && (m =? 37)); [|discriminate].
    do 4 (destruct c as [|? c]; [discriminate|]). cbn [app]. auto. }
  destruct (b0 =? 233).
  { do 4 (destruct c as [|? c]; [discriminate|]). cbn [app]. auto. }
  discriminate.
Qed.

Lemma step_code mode s c i len :
  code_at (mem s) (rip s) c -> (length c <= 15)%nat -> decode mode c = Some (i, len) ->
  step mode s = Some (exec mode s i len).
Proof.
  intros Hc Hl Hd. unfold step.
  destruct (fetch_prefix _ _ _ 15 Hc Hl) as [r ->].
  now rewrite (decode_prefix _ _ _ _ Hd).
Qed.

(* ---------- decoding the emitted sequences ---------- *)
Lemma le_bytes8 x : 0 <= x < 2 ^ 64 -> le (bytes_le 8 x) = x.
Proof. intros; rewrite le_bytes_le. change (256 ^ Z.of_nat 8) with (2 ^ 64). apply Z.mod_small; lia. Qed.

Lemma le_bytes4 x : 0 <= x < 2 ^ 32 -> le (bytes_le 4 x) = x.
Proof. intros; rewrite le_bytes_le. change (256 ^ Z.of_nat 4) with (2 ^ 32). apply Z.mod_small; lia. Qed.

Lemma decode_movabs_rdx to : 0 <= to < 2 ^ 64 ->
  decode 64 ([72; 186] ++ bytes_le 8 to) = Some (MovImm RDX to, 10).
Proof.
  intros H. pose proof (le_bytes8 to H) as Hle.
  cbn [bytes_le app] in *. unfold decode.
  change (72 =? 144) with false. change ((64 =? 64) && (72 =? 72)) with true. cbv iota.
  change ((184 <=? 186) && (186 <=? 191)) with true. cbv iota.
  rewrite Hle. reflexivity.
Qed.

Lemma decode_jmp_rdx mode : decode mode [255; 34] = Some (JmpInd RDX, 2).
Proof.
  unfold decode. change (255 =? 144) with false.
  change (255 =? 72) with false. rewrite andb_false_r.
  change (184 <=? 255) with true. change (255 <=? 191) with false. rewrite !andb_false_r.
  reflexivity.
Qed.

Lemma decode_nop mode r : decode mode (144 :: r) = Some (Nop, 1).
Proof. reflexivity. Qed.

Lemma decode_mov_edx to : 0 <= to < 2 ^ 32 ->
  decode 32 ([186] ++ bytes_le 4 to) = Some (MovImm RDX to, 5).
Proof.
  intros H. pose proof (le_bytes4 to H) as Hle.
  cbn [bytes_le app] in *. unfold decode.
  change (186 =? 144) with false. change ((32 =? 64) && (186 =? 72)) with false.
  change ((32 =? 32) && (184 <=? 186) && (186 <=? 191)) with true. cbv iota.
  rewrite Hle. reflexivity.
Qed.

Lemma decode_rel d : 0 <= d < 2 ^ 32 ->
  decode 64 (233 :: bytes_le 4 d) = Some (JmpRel (wraps 32 d), 5).
Proof.
  intros H. pose proof (le_bytes4 d H) as Hle.
  cbn [bytes_le app] in *. unfold decode.
  change (233 =? 144) with false. change ((64 =? 64) && (233 =? 72)) with false.
  change ((64 =? 32) && (184 <=? 233) && (233 <=? 191)) with false.
  change (233 =? 255) with false. change (233 =? 233) with true. cbv iota.
  rewrite Hle. reflexivity.
Qed.

(* ---------- running them ---------- *)
Definition same_but_rdx (s s' : mstate) (v : Z) : Prop :=
  regs s' = upd (regs s) RDX v /\ mem s' = mem s.

(* MOVABS RDX,to ; JMP [RDX]  -- used by the interface stubs and the far trampoline return *)
Theorem abs_jump_rdx_runs s to :
  0 <= to < 2 ^ 64 -> 0 <= rip s -> rip s + 12 < 2 ^ 64 ->
  code_at (mem s) (rip s) (abs_jump_rdx to) ->
  exists s', run 64 2 s = Some s' /\ rip s' = memw 64 (mem s) to /\ same_but_rdx s s' to.
Proof.
  intros Hto Hr0 Hr1 Hc. unfold abs_jump_rdx in Hc.
  rewrite app_assoc in Hc. apply code_at_app in Hc as [Hc1 Hc2].
  cbn [run].
  rewrite (step_code 64 s _ _ _ Hc1 ltac:(rewrite app_length, bytes_le_length; cbn; lia) (decode_movabs_rdx to Hto)).
  set (s1 := exec 64 s (MovImm RDX to) 10).
  assert (Hrip1 : rip s1 = rip s + 10).
  { unfold s1; cbn. apply wrapu_small. lia. }
  assert (Hc2' : code_at (mem s1) (rip s1) [255; 34]).
  { rewrite Hrip1. unfold s1; cbn [exec mem].
    replace (lenZ ([72; 186] ++ bytes_le 8 to)) with 10 in Hc2; [exact Hc2|].
    unfold lenZ. rewrite app_length, bytes_le_length. reflexivity. }
  rewrite (step_code 64 s1 _ _ _ Hc2' ltac:(cbn; lia) (decode_jmp_rdx 64)).
  eexists; split; [reflexivity|].
  unfold s1; cbn. split; [reflexivity | split; reflexivity].
Qed.

(* NOP ; MOVABS RDX,to ; JMP [RDX]  -- the entry patch *)
Theorem entry_jump_runs s to :
  0 <= to < 2 ^ 64 -> 0 <= rip s -> rip s + 13 < 2 ^ 64 ->
  code_at (mem s) (rip s) (entry_jump to) ->
  exists s', run 64 3 s = Some s' /\ rip s' = memw 64 (mem s) to /\ same_but_rdx s s' to.
Proof.
  intros Hto Hr0 Hr1 Hc. unfold entry_jump in Hc.
  change (144 :: abs_jump_rdx to) with ([144] ++ abs_jump_rdx to) in Hc.
  apply code_at_app in Hc as [Hc1 Hc2].
  cbn [run].
  rewrite (step_code 64 s [144] Nop 1 Hc1 ltac:(cbn; lia) (decode_nop 64 [])).
  set (s1 := exec 64 s Nop 1).
  assert (Hrip1 : rip s1 = rip s + 1) by (unfold s1; cbn; apply wrapu_small; lia).
  assert (Hc2' : code_at (mem s1) (rip s1) (abs_jump_rdx to)).
  { rewrite Hrip1. exact Hc2. }
  destruct (abs_jump_rdx_runs s1 to Hto ltac:(lia) ltac:(lia) Hc2') as (s' & Hrun & Hrip & Hregs & Hmem).
  exists s'. cbn [run] in Hrun. rewrite Hrun. split; [reflexivity|].
  split; [exact Hrip|]. split; [exact Hregs | exact Hmem].
Qed.

(* i386 : MOV EDX,to ; JMP [EDX] *)
Theorem abs_jump_edx_runs s to :
  0 <= to < 2 ^ 32 -> 0 <= rip s -> rip s + 7 < 2 ^ 32 ->
  code_at (mem s) (rip s) (abs_jump_edx to) ->
  exists s', run 32 2 s = Some s' /\ rip s' = memw 32 (mem s) to /\ same_but_rdx s s' to.
Proof.
  intros Hto Hr0 Hr1 Hc. unfold abs_jump_edx in Hc.
  rewrite app_assoc in Hc. apply code_at_app in Hc as [Hc1 Hc2].
  cbn [run].
  rewrite (step_code 32 s _ _ _ Hc1 ltac:(cbn; lia) (decode_mov_edx to Hto)).
  set (s1 := exec 32 s (MovImm RDX to) 5).
  assert (Hrip1 : rip s1 = rip s + 5) by (unfold s1; cbn; apply wrapu_small; lia).
  assert (Hc2' : code_at (mem s1) (rip s1) [255; 34]).
  { rewrite Hrip1. unfold s1; cbn [exec mem].
    replace (lenZ ([186] ++ bytes_le 4 to)) with 5 in Hc2; [exact Hc2|]. reflexivity. }
  rewrite (step_code 32 s1 _ _ _ Hc2' ltac:(cbn; lia) (decode_jmp_rdx 32)).
  eexists; split; [reflexivity|].
  unfold s1; cbn. split; [reflexivity | split; reflexivity].
Qed.

(* JMP rel32 lands on [to] whenever the relative form is chosen *)
Lemma rel_target from to :
  0 <= from < 2 ^ 64 -> 0 <= to < 2 ^ 64 -> rel_fits from to = true ->
  wrapu 64 (from + 5 + wraps 32 (wrapu 32 (to - from - 5))) = to.
Proof.
  intros Hf Ht Hfit. unfold rel_fits, rel_disp in Hfit.
  apply andb_prop in Hfit as [Hlo Hhi]. apply Z.leb_le in Hlo, Hhi.
  set (D := to - from - 5) in *.
  set (d := wraps 64 (wrapu 64 D)) in *.
  assert (HdD : congM (2 ^ 64) d D).
  { unfold d. eapply congM_trans; [apply wraps_congM; lia | apply wrapu_cong; lia]. }
  assert (H32 : wraps 32 (wrapu 32 D) = d).
  { apply wraps_unique; [lia | change (2 ^ (32 - 1)) with 2147483648; lia |].
    eapply congM_trans; [apply wrapu_cong; lia|].
    apply congM_sym, cong64_32, HdD. }
  rewrite H32. apply wrapu_unique; [lia | lia |].
  destruct HdD as [k Hk]. exists k. rewrite Hk. unfold D. ring.
Qed.

Theorem rel_jump_runs s to :
  0 <= rip s < 2 ^ 64 -> 0 <= to < 2 ^ 64 -> rel_fits (rip s) to = true ->
  code_at (mem s) (rip s) (rel_jump (rip s) to) ->
  exists s', run 64 1 s = Some s' /\ rip s' = to /\ regs s' = regs s /\ mem s' = mem s.
Proof.
  intros Hr Hto Hfit Hc. unfold rel_jump in Hc. cbn [run].
  pose proof (wrapu_range 32 (to - rip s - 5) ltac:(lia)) as Hd.
  rewrite (step_code 64 s _ _ _ Hc ltac:(cbn; lia) (decode_rel _ Hd)).
  eexists; split; [reflexivity|]. cbn.
  split; [apply rel_target; assumption | split; reflexivity].
Qed.

(* JMP [RIP+0] ; .quad to  -- the far form of the trampoline return: lands on [to] itself, no register changes *)
Lemma decode_jmp_rip0 r : decode 64 ([255; 37; 0; 0; 0; 0] ++ r) = Some (JmpRipInd 0, 6).
Proof. reflexivity. Qed.

Theorem abs_jump_rip_runs s to :
  0 <= to < 2 ^ 64 -> 0 <= rip s -> rip s + 14 < 2 ^ 64 ->
  code_at (mem s) (rip s) (abs_jump_rip to) ->
  exists s', run 64 1 s = Some s' /\ rip s' = to /\ regs s' = regs s /\ mem s' = mem s.
Proof.
  intros Hto Hr0 Hr1 Hc. unfold abs_jump_rip in Hc.
  pose proof Hc as Hc0. apply code_at_app in Hc as [Hc1 Hc2].
  cbn [run].
  rewrite (step_code 64 s _ _ _ Hc0 ltac:(rewrite app_length, bytes_le_length; cbn; lia) (decode_jmp_rip0 (bytes_le 8 to))).
  eexists; split; [reflexivity|]. cbn [exec rip regs mem].
  split; [|split; reflexivity].
  replace (lenZ [255; 37; 0; 0; 0; 0]) with 6 in Hc2 by reflexivity.
  rewrite Z.add_0_r, (wrapu_small 64 (rip s + 6)) by lia.
  unfold memw. change (Z.to_nat (64 / 8)) with 8%nat.
  unfold code_at in Hc2. rewrite bytes_le_length in Hc2. rewrite Hc2. apply le_bytes8. exact Hto.
Qed.

(* the form chosen for the trampoline's return jump is always one of the two *)
Lemma origin_jump_forms from to :
  origin_jump from to = rel_jump from to /\ rel_fits from to = true \/
  origin_jump from to = abs_jump_rip to /\ rel_fits from to = false.
Proof. unfold origin_jump. destruct (rel_fits from to); auto. Qed.

Lemma origin_jump_length from to : length (origin_jump from to) = 5%nat \/ length (origin_jump from to) = 14%nat.
Proof. unfold origin_jump. destruct (rel_fits from to); [left | right]; reflexivity. Qed.

(* before the repair F15b the far form was the function-value form: control went to the bytes STORED at [to] *)
Lemma origin_jump_pre_repair_refuted :
  exists to s, rel_fits (rip s) to = false /\ code_at (mem s) (rip s) (origin_jump_pre_repair (rip s) to) /\
    forall s', run 64 2 s = Some s' -> rip s' <> to /\ regs s' RDX <> regs s RDX.
Proof.
  set (to := 2 ^ 40).
  set (code := abs_jump_rdx to).
  set (m := fun a => if (4096 <=? a) && (a <? 4096 + 12) then nth (Z.to_nat (a - 4096)) code 0 else 0).
  exists to, {| rip := 4096; regs := fun _ => 7; mem := m |}.
  split; [vm_compute; reflexivity|]. split; [vm_compute; reflexivity|].
  intros s' H. vm_compute in H. inversion H; subst s'. cbn. split; discriminate.
Qed.
