(* C16 -- bounds that hold for EVERY decoding program and every byte string (Model/X86Len.v) *)
From Goom Require Import Base.MachineInt Gen.X86Table Model.X86Len.
From Coq Require Import List ZArith Bool Lia ZifyBool.
Import ListNotations.
Open Scope Z_scope.

(* the invariant of the decoding state: the read position never passes the end of the input, a displacement that was
   read lies behind at least one byte and in front of the read position, and the PC-relative field recorded so far is
   either such a displacement or the most recently marked immediate *)
Definition Inv (src : list Z) (s : st) : Prop :=
  0 <= pos s <= lenZs src /\
  (0 < displen s -> 0 < dispoff s /\ dispoff s + displen s <= pos s) /\ 0 <= displen s /\
  0 <= immcpos s <= pos s /\
  (pcrel s = 0 \/ (0 < pcreloff s /\ pcreloff s + pcrel s <= pos s) \/ (0 <= pcreloff s <= pos s /\ (pcrel s = 1 \/ pcrel s = 2 \/ pcrel s = 4))).

Definition RInv (src : list Z) (r : result) : Prop :=
  match r with
  | ROk len _ _ pr po =>
      0 <= len <= lenZs src /\
      (pr = 0 \/ (0 < po /\ po + pr <= len) \/ (0 <= po <= len /\ (pr = 1 \/ pr = 2 \/ pr = 4)))
  | RUnrecognized l | RInternal l => 0 <= l <= lenZs src
  | _ => True
  end.

Ltac inv_fields := unfold Inv in *; cbn [pos displen dispoff immcpos pcrel pcreloff set_pos set_pc push_opcode with_out with_regop with_immcpos] in *.

Lemma inv_set_pc src s p : Inv src s -> Inv src (set_pc s p).
Proof. intros H. inv_fields. exact H. Qed.

Lemma inv_set_pos src s p : Inv src s -> pos s <= p <= lenZs src -> Inv src (set_pos s p).
Proof. intros H Hp. inv_fields. intuition lia. Qed.

Lemma push_opcode_fields s b :
  pos (push_opcode s b) = pos s /\ displen (push_opcode s b) = displen s /\ dispoff (push_opcode s b) = dispoff s /\
  immcpos (push_opcode s b) = immcpos s /\ pcrel (push_opcode s b) = pcrel s /\ pcreloff (push_opcode s b) = pcreloff s /\
  have_modrm (push_opcode s b) = have_modrm s /\ rex (push_opcode s b) = rex s /\ addr_mode (push_opcode s b) = addr_mode s.
Proof. unfold push_opcode. destruct (opshift s >=? 0); cbn; repeat split; reflexivity. Qed.

Lemma inv_push_opcode src s b : Inv src s -> Inv src (push_opcode s b).
Proof.
  intros H. destruct (push_opcode_fields s b) as (H1 & H2 & H3 & H4 & H5 & H6 & _). unfold Inv in *. rewrite H1, H2, H3, H4, H5, H6. exact H.
Qed.

Lemma inv_with_out_same src s o na : Inv src s -> Inv src (with_out s o na (pcrel s) (pcreloff s)).
Proof. intros H. inv_fields. exact H. Qed.

Lemma inv_with_regop src s r : Inv src s -> Inv src (with_regop s r).
Proof. intros H. inv_fields. exact H. Qed.

Lemma truncated_rinv src : RInv src (truncated src).
Proof. unfold truncated. destruct src; exact I. Qed.

Lemma finish_rinv src s : Inv src s -> RInv src (finish src s).
Proof.
  intros H. unfold finish. destruct (op s =? 0); [destruct (nprefix s >? 0); cbn; [exact I|inv_fields; lia]|].
  cbn. inv_fields. destruct H as (Hp & Hd & Hd0 & Hi & Hr). split; [lia|].
  destruct Hr as [Hr|[Hr|[Hr1 Hr2]]]; [left; exact Hr|right; left; exact Hr|right; right; split; [lia|exact Hr2]].
Qed.

Lemma fail_rinv src s r : Inv src s -> fail src s = inr r -> RInv src r.
Proof. intros H. unfold fail. intros [= <-]. apply finish_rinv. apply inv_with_out_same. exact H. Qed.

Lemma fail_not_inl src s s' : fail src s <> inl s'.
Proof. unfold fail. discriminate. Qed.

Lemma put_arg_inv src s k pr po s' :
  Inv src s ->
  (pr = 0 \/ (0 < po /\ po + pr <= pos s) \/ (0 <= po <= pos s /\ (pr = 1 \/ pr = 2 \/ pr = 4))) ->
  put_arg s k pr po = inl s' -> Inv src s'.
Proof.
  intros H Hr. unfold put_arg. destruct (narg s + k >? 4); [discriminate|]. intros [= <-]. inv_fields. intuition lia.
Qed.

Lemma put_arg_res s k pr po r : put_arg s k pr po = inr r -> r = RPanic.
Proof. unfold put_arg. destruct (narg s + k >? 4); [intros [= <-]; reflexivity|discriminate]. Qed.

Lemma read_bytes_inv src s n mark s' : Inv src s -> 1 <= n -> read_bytes src s n mark = inl s' -> Inv src s'.
Proof.
  intros H Hn. unfold read_bytes. destruct (pos s + n >? lenZs src) eqn:E; [discriminate|]. intros [= <-].
  destruct mark; inv_fields; intuition lia.
Qed.

Lemma read_bytes_res src s n mark r : read_bytes src s n mark = inr r -> RInv src r.
Proof. unfold read_bytes. destruct (pos s + n >? lenZs src); [intros [= <-]; apply truncated_rinv|discriminate]. Qed.

(* ModR/M: the displacement that is read starts behind the ModR/M byte *)
Lemma read_modrm_inv src s s' : Inv src s -> read_modrm src s = inl s' -> Inv src s' .
Proof.
  intros H. unfold read_modrm. destruct (have_modrm s); [discriminate|].
  destruct (pos s >=? lenZs src) eqn:E0; [discriminate|].
  set (m := byte_at src (pos s)).
  set (s1 := push_opcode (set_pos s (pos s + 1)) m).
  assert (H1 : Inv src s1) by (apply inv_push_opcode, inv_set_pos; [exact H|unfold Inv in H; lia]).
  assert (P1 : pos s1 = pos s + 1) by (unfold s1; rewrite (proj1 (push_opcode_fields _ _)); reflexivity).
  set (need_sib := (Z.land m 7 =? 4) && negb (Z.shiftr m 6 =? 3)).
  destruct (need_sib && (pos s1 >=? lenZs src)) eqn:E1; [discriminate|].
  set (s2 := if need_sib then push_opcode (set_pos s1 (pos s1 + 1)) (byte_at src (pos s1)) else s1).
  assert (H2 : Inv src s2 /\ pos s1 <= pos s2 <= pos s1 + 1).
  { unfold s2. destruct need_sib; [|split; [exact H1|lia]].
    simpl in E1. split.
    - apply inv_push_opcode, inv_set_pos; [exact H1|unfold Inv in H1; lia].
    - rewrite (proj1 (push_opcode_fields _ _)). cbn. lia. }
  destruct H2 as [H2 P2].
  match goal with |- (if ?c then _ else _) = _ -> _ => destruct c eqn:E2; [discriminate|] end.
  match goal with |- (if ?c then _ else _) = _ -> _ => destruct c eqn:E3; [discriminate|] end.
  intros [= <-]. unfold Inv in *. cbn [pos displen dispoff immcpos pcrel pcreloff].
  destruct H2 as (Hp & _ & _ & Hi & Hr). destruct H as (Hp0 & Hd & Hd0 & _ & _).
  repeat match goal with |- context [if ?c then _ else _] => destruct c eqn:? end; cbn in *; intuition lia.
Qed.

Lemma read_modrm_res src s r : Inv src s -> read_modrm src s = inr r -> RInv src r.
Proof.
  intros H. unfold read_modrm. destruct (have_modrm s); [intros [= <-]; cbn; unfold Inv in H; lia|].
  destruct (pos s >=? lenZs src); [intros [= <-]; apply truncated_rinv|].
  repeat match goal with |- (if ?c then _ else _) = _ -> _ => destruct c; [intros [= <-]; apply truncated_rinv|] end.
  discriminate.
Qed.

Section Step.
  Variable tbl : Z -> option Z.

  Ltac tblcase := match goal with |- context [match tbl ?i with _ => _ end] => destruct (tbl i) eqn:? end.

  Lemma step_inv src s s' : Inv src s -> step tbl src s = inl s' -> Inv src s'.
  Proof.
    intros H0. unfold step, exec. destruct (tbl (pc s)) as [x|]; [|discriminate].
    set (s1 := set_pc s (pc s + 1)). assert (H1 : Inv src s1) by (apply inv_set_pc; exact H0).
    destruct (if (x =? x_CondSlashR) || (x =? x_ReadSlashR) then read_modrm src s1 else inl s1) as [s2|r] eqn:Em; [|discriminate].
    assert (H : Inv src s2).
    { destruct ((x =? x_CondSlashR) || (x =? x_ReadSlashR)); [apply (read_modrm_inv src s1 s2 H1 Em)|inversion Em; subst; exact H1]. }
    clear Em H1 s1 H0. rename s2 into t.
    destruct (x =? x_Fail); [intros Hc; exfalso; exact (fail_not_inl _ _ _ Hc)|].
    destruct (x =? x_Match); [discriminate|].
    destruct (x =? x_Jump); [tblcase; [intros [= <-]; apply inv_set_pc; exact H|discriminate]|].
    destruct (x =? x_CondByte).
    { destruct (pos t >=? lenZs src) eqn:Ep; [discriminate|]. tblcase; [|discriminate].
      destruct (cond_byte_scan tbl (Z.to_nat z) (pc t + 1) (byte_at src (pos t))) as [[[tg|]|] p'].
      - intros [= <-]. apply inv_set_pc, inv_push_opcode, inv_set_pos; [exact H|unfold Inv in H; lia].
      - discriminate.
      - tblcase; [|discriminate].
        destruct (if z0 =? x_Jump then tbl (p' + 1) else Some p') as [p''|]; [|discriminate].
        tblcase; [|discriminate]. intros [= <-]. apply inv_set_pc. destruct (z1 =? x_Fail); [|exact H].
        apply inv_set_pos; [exact H|unfold Inv in H; lia]. }
    destruct (x =? x_CondIs64); [tblcase; [intros [= <-]; apply inv_set_pc; exact H|discriminate]|].
    destruct (x =? x_CondIsMem).
    { destruct (negb (have_modrm t) && (pos t >=? lenZs src)); [discriminate|].
      tblcase; [intros [= <-]; apply inv_set_pc; exact H|discriminate]. }
    destruct (x =? x_CondDataSize); [tblcase; [intros [= <-]; apply inv_set_pc; exact H|discriminate]|].
    destruct (x =? x_CondAddrSize); [tblcase; [intros [= <-]; apply inv_set_pc; exact H|discriminate]|].
    destruct (x =? x_CondPrefix).
    { tblcase; [|discriminate]. destruct (cond_prefix_scan tbl (Z.to_nat z) (pc t + 1) t) as [[tg|[]]|]; [|intros Hc; exfalso; exact (fail_not_inl _ _ _ Hc)|discriminate].
      intros [= <-]. apply inv_set_pc; exact H. }
    destruct (x =? x_CondSlashR); [tblcase; [intros [= <-]; apply inv_set_pc; exact H|discriminate]|].
    destruct (x =? x_ReadSlashR); [intros [= <-]; exact H|].
    destruct (x =? x_ReadIb); [apply read_bytes_inv; [exact H|lia]|].
    destruct (x =? x_ReadIw); [apply read_bytes_inv; [exact H|lia]|].
    destruct (x =? x_ReadID); [apply read_bytes_inv; [exact H|lia]|].
    destruct (x =? x_ReadIo); [apply read_bytes_inv; [exact H|lia]|].
    destruct (x =? x_ReadCb); [apply read_bytes_inv; [exact H|lia]|].
    destruct (x =? x_ReadCw); [apply read_bytes_inv; [exact H|lia]|].
    destruct (x =? x_ReadCm); [apply read_bytes_inv; [exact H|destruct (addr_mode t =? 32); lia]|].
    destruct (x =? x_ReadCd); [apply read_bytes_inv; [exact H|lia]|].
    destruct (x =? x_ReadCp); [apply read_bytes_inv; [exact H|lia]|].
    destruct (x =? x_SetOp); [tblcase; [intros [= <-]; apply inv_set_pc, inv_with_out_same; exact H|discriminate]|].
    assert (Hkeep : pcrel t = 0 \/ (0 < pcreloff t /\ pcreloff t + pcrel t <= pos t) \/ (0 <= pcreloff t <= pos t /\ (pcrel t = 1 \/ pcrel t = 2 \/ pcrel t = 4)))
      by (unfold Inv in H; tauto).
    assert (Hdisp : displen t = 0 \/ (0 < dispoff t /\ dispoff t + displen t <= pos t) \/ (0 <= dispoff t <= pos t /\ (displen t = 1 \/ displen t = 2 \/ displen t = 4))).
    { unfold Inv in H. destruct H as (_ & Hd & Hd0 & _). destruct (Z.eq_dec (displen t) 0); [left; assumption|right; left; apply Hd; lia]. }
    destruct (is_in x mem_arg_ops).
    { destruct (have_mem t); [|intros Hc; exfalso; exact (fail_not_inl _ _ _ Hc)].
      destruct (riprel t); apply put_arg_inv; assumption. }
    destruct (is_in x rm_arg_ops); [destruct (have_mem t && riprel t); apply put_arg_inv; assumption|].
    destruct ((x =? x_ArgPtr16colon16) || (x =? x_ArgPtr16colon32)); [apply put_arg_inv; assumption|].
    destruct (x =? x_ArgCR0dashCR7).
    { destruct (has_lock t); [|apply put_arg_inv; assumption]. apply put_arg_inv; [apply inv_with_regop; exact H|exact Hkeep]. }
    destruct (x =? x_ArgSreg).
    { destruct (Z.land (regop t) 7 >=? 6); [intros Hc; exfalso; exact (fail_not_inl _ _ _ Hc)|].
      apply put_arg_inv; [apply inv_with_regop; exact H|exact Hkeep]. }
    destruct ((x =? x_ArgMm2) || (x =? x_ArgXmm2)).
    { destruct (have_mem t); [intros Hc; exfalso; exact (fail_not_inl _ _ _ Hc)|apply put_arg_inv; assumption]. }
    destruct (x =? x_ArgRel8); [apply put_arg_inv; [exact H|right; right; split; [unfold Inv in H; lia|lia]]|].
    destruct (x =? x_ArgRel16); [apply put_arg_inv; [exact H|right; right; split; [unfold Inv in H; lia|lia]]|].
    destruct (x =? x_ArgRel32); [apply put_arg_inv; [exact H|right; right; split; [unfold Inv in H; lia|lia]]|].
    destruct (is_in x plain_arg_ops); [apply put_arg_inv; assumption|discriminate].
  Qed.

  Lemma step_res src s r : Inv src s -> step tbl src s = inr r -> RInv src r.
  Proof.
    intros H0. unfold step, exec. destruct (tbl (pc s)) as [x|]; [|intros [= <-]; exact I].
    set (s1 := set_pc s (pc s + 1)). assert (H1 : Inv src s1) by (apply inv_set_pc; exact H0).
    destruct (if (x =? x_CondSlashR) || (x =? x_ReadSlashR) then read_modrm src s1 else inl s1) as [s2|r0] eqn:Em.
    2:{ intros [= <-]. destruct ((x =? x_CondSlashR) || (x =? x_ReadSlashR)); [apply (read_modrm_res src s1 r0 H1 Em)|discriminate]. }
    assert (H : Inv src s2).
    { destruct ((x =? x_CondSlashR) || (x =? x_ReadSlashR)); [apply (read_modrm_inv src s1 s2 H1 Em)|inversion Em; subst; exact H1]. }
    clear Em H1 s1 H0. rename s2 into t.
    assert (Hpanic : forall A (o : option A) (f : A -> st + result), match o with Some a => f a | None => inr RPanic end = inr r ->
                     (forall a, f a = inr r -> RInv src r) -> RInv src r).
    { intros A o f. destruct o; [intros E Hf; exact (Hf _ E)|intros [= <-] _; exact I]. }
    destruct (x =? x_Fail); [apply fail_rinv; exact H|].
    destruct (x =? x_Match); [intros [= <-]; apply finish_rinv; exact H|].
    destruct (x =? x_Jump); [tblcase; [discriminate|intros [= <-]; exact I]|].
    destruct (x =? x_CondByte).
    { destruct (pos t >=? lenZs src) eqn:Ep; [intros [= <-]; apply truncated_rinv|]. tblcase; [|intros [= <-]; exact I].
      destruct (cond_byte_scan tbl (Z.to_nat z) (pc t + 1) (byte_at src (pos t))) as [[[tg|]|] p']; [discriminate|intros [= <-]; exact I|].
      tblcase; [|intros [= <-]; exact I].
      destruct (if z0 =? x_Jump then tbl (p' + 1) else Some p') as [p''|]; [|intros [= <-]; exact I].
      tblcase; [discriminate|intros [= <-]; exact I]. }
    destruct (x =? x_CondIs64); [tblcase; [discriminate|intros [= <-]; exact I]|].
    destruct (x =? x_CondIsMem).
    { destruct (negb (have_modrm t) && (pos t >=? lenZs src)); [intros [= <-]; exact I|].
      tblcase; [discriminate|intros [= <-]; exact I]. }
    destruct (x =? x_CondDataSize); [tblcase; [discriminate|intros [= <-]; exact I]|].
    destruct (x =? x_CondAddrSize); [tblcase; [discriminate|intros [= <-]; exact I]|].
    destruct (x =? x_CondPrefix).
    { tblcase; [|intros [= <-]; exact I]. destruct (cond_prefix_scan tbl (Z.to_nat z) (pc t + 1) t) as [[tg|[]]|]; [discriminate|apply fail_rinv; exact H|intros [= <-]; exact I]. }
    destruct (x =? x_CondSlashR); [tblcase; [discriminate|intros [= <-]; exact I]|].
    destruct (x =? x_ReadSlashR); [discriminate|].
    destruct (x =? x_ReadIb); [apply read_bytes_res|].
    destruct (x =? x_ReadIw); [apply read_bytes_res|].
    destruct (x =? x_ReadID); [apply read_bytes_res|].
    destruct (x =? x_ReadIo); [apply read_bytes_res|].
    destruct (x =? x_ReadCb); [apply read_bytes_res|].
    destruct (x =? x_ReadCw); [apply read_bytes_res|].
    destruct (x =? x_ReadCm); [apply read_bytes_res|].
    destruct (x =? x_ReadCd); [apply read_bytes_res|].
    destruct (x =? x_ReadCp); [apply read_bytes_res|].
    destruct (x =? x_SetOp); [tblcase; [discriminate|intros [= <-]; exact I]|].
    assert (Hput : forall u k pr po, put_arg u k pr po = inr r -> RInv src r) by (intros u k pr po E; rewrite (put_arg_res _ _ _ _ _ E); exact I).
    destruct (is_in x mem_arg_ops).
    { destruct (have_mem t); [|apply fail_rinv; exact H]. destruct (riprel t); apply Hput. }
    destruct (is_in x rm_arg_ops); [destruct (have_mem t && riprel t); apply Hput|].
    destruct ((x =? x_ArgPtr16colon16) || (x =? x_ArgPtr16colon32)); [apply Hput|].
    destruct (x =? x_ArgCR0dashCR7); [apply Hput|].
    destruct (x =? x_ArgSreg).
    { destruct (Z.land (regop t) 7 >=? 6); [apply fail_rinv, inv_with_regop; exact H|apply Hput]. }
    destruct ((x =? x_ArgMm2) || (x =? x_ArgXmm2)); [destruct (have_mem t); [apply fail_rinv; exact H|apply Hput]|].
    destruct (x =? x_ArgRel8); [apply Hput|].
    destruct (x =? x_ArgRel16); [apply Hput|].
    destruct (x =? x_ArgRel32); [apply Hput|].
    destruct (is_in x plain_arg_ops); [apply Hput|]. intros [= <-]. cbn. unfold Inv in H. lia.
  Qed.

  Lemma run_rinv fuel : forall src s, Inv src s -> RInv src (run tbl fuel src s).
  Proof.
    induction fuel as [|f IH]; intros src s H; cbn [run]; [exact I|].
    destruct (step tbl src s) as [s'|r] eqn:E; [apply IH; exact (step_inv src s s' H E)|exact (step_res src s r H E)].
  Qed.
End Step.

(* ---------------------------------------------------------------- prefixes and REX *)
Lemma scan_prefixes_inv fuel : forall src s s', Inv src s -> scan_prefixes fuel src s = inl s' -> Inv src s'.
Proof.
  induction fuel as [|f IH]; intros src s s' H; cbn [scan_prefixes]; [intros [= <-]; exact H|].
  destruct (pos s >=? lenZs src) eqn:E0; [intros [= <-]; exact H|].
  assert (Hstop : forall n, Inv src {| pos := pos s; has_lock := has_lock s; rep := rep s; seg := seg s; has_data := has_data s; has_addr := has_addr s; nprefix := n;
                 rex := rex s; vex := vex s; vex1 := vex1 s; vex2 := vex2 s; data_mode := data_mode s; addr_mode := addr_mode s;
                 have_modrm := have_modrm s; modrm := modrm s; md := md s; regop := regop s; rm := rm s; have_mem := have_mem s; riprel := riprel s;
                 displen := displen s; dispoff := dispoff s; immcpos := immcpos s; opshift := opshift s; opcode := opcode s; op := op s;
                 narg := narg s; pcrel := pcrel s; pcreloff := pcreloff s; pc := pc s |}) by (intros n; inv_fields; exact H).
  destruct (legacy_prefix (byte_at src (pos s))).
  { destruct (pos s >=? 14); [discriminate|]. apply IH.
    repeat match goal with |- context [if ?c then _ else _] => destruct c end; inv_fields; intuition lia. }
  destruct (byte_at src (pos s) =? 197).
  { destruct ((pos s =? 0) && (pos s + 1 <? lenZs src)) eqn:E1; [|intros [= <-]; apply Hstop]. apply IH. inv_fields. intuition lia. }
  destruct (byte_at src (pos s) =? 196).
  { destruct ((pos s =? 0) && (pos s + 2 <? lenZs src)) eqn:E1; [|intros [= <-]; apply Hstop]. apply IH. inv_fields. intuition lia. }
  intros [= <-]; apply Hstop.
Qed.

Lemma scan_prefixes_res fuel : forall src s r, scan_prefixes fuel src s = inr r -> r = RPrefix.
Proof.
  induction fuel as [|f IH]; intros src s r; cbn [scan_prefixes]; [discriminate|].
  destruct (pos s >=? lenZs src); [discriminate|].
  destruct (legacy_prefix _); [destruct (pos s >=? 14); [intros [= <-]; reflexivity|apply IH]|].
  destruct (_ =? 197); [destruct (_ && _); [apply IH|discriminate]|].
  destruct (_ =? 196); [destruct (_ && _); [apply IH|discriminate]|]. discriminate.
Qed.

Lemma read_rex_inv src s s' : Inv src s -> read_rex src s = inl s' -> Inv src s'.
Proof.
  intros H. unfold read_rex. destruct ((pos s <? lenZs src) && _ && _) eqn:E; [|intros [= <-]; exact H].
  destruct (pos s >=? 14); [discriminate|]. intros [= <-]. inv_fields. intuition lia.
Qed.

Lemma read_rex_res src s r : read_rex src s = inr r -> r = RPrefix.
Proof. unfold read_rex. destruct (_ && _ && _); [destruct (pos s >=? 14); [intros [= <-]; reflexivity|discriminate]|discriminate]. Qed.

Lemma init_inv src : Inv src init_st.
Proof. unfold Inv, init_st; cbn. unfold lenZs. lia. Qed.

Lemma lenZs_firstn15 src : lenZs (firstn 15 src) <= 15 /\ lenZs (firstn 15 src) <= lenZs src.
Proof. unfold lenZs. rewrite firstn_length. lia. Qed.

(* every outcome of Decode, for every decoding program, every amount of fuel and every input *)
Theorem decode_bounds (tbl : Z -> option Z) (fuel : nat) (src : list Z) : RInv (firstn 15 src) (decode tbl fuel src).
Proof.
  unfold decode. destruct (scan_prefixes 16 (firstn 15 src) init_st) as [s1|r] eqn:E1.
  2:{ rewrite (scan_prefixes_res _ _ _ _ E1). exact I. }
  assert (H1 := scan_prefixes_inv _ _ _ _ (init_inv _) E1).
  destruct (read_rex (firstn 15 src) s1) as [s2|r] eqn:E2; [|rewrite (read_rex_res _ _ _ E2); exact I].
  apply run_rinv. exact (read_rex_inv _ _ _ H1 E2).
Qed.

Corollary decode_ok_bounds tbl fuel src len oc o pr po :
  decode tbl fuel src = ROk len oc o pr po ->
  0 <= len <= 15 /\ len <= lenZs src /\
  (pr = 0 \/ (0 < po /\ po + pr <= len) \/ (0 <= po <= len /\ (pr = 1 \/ pr = 2 \/ pr = 4))).
Proof.
  intros E. assert (H := decode_bounds tbl fuel src). rewrite E in H. unfold RInv in H. destruct (lenZs_firstn15 src) as [L1 L2]. intuition lia.
Qed.
