(* arm64 jump sequence (C15): the four moves reassemble the address in x26, then LDR tmp,[x26]; BR tmp. *)
From Goom Require Import Base.MachineInt ISA.A64Mini Model.JumpEnc.
From Coq Require Import ZifyBool.
Open Scope Z_scope.

Ltac pow_lits :=
  repeat match goal with
  | |- context[2 ^ ?k] =>
      lazymatch k with
      | Zpos _ => let v := eval vm_compute in (2 ^ k) in change (2 ^ k) with v
      | Z0 => change (2 ^ 0) with 1
      end
  end.

Lemma fetch_app m a n k : fetch m a (n + k) = fetch m a n ++ fetch m (a + Z.of_nat n) k.
Proof.
  revert a; induction n as [|n IH]; intros a.
  - simpl. now rewrite Z.add_0_r.
  - cbn [Nat.add fetch app]. rewrite IH.
    replace (a + 1 + Z.of_nat n) with (a + Z.of_nat (S n)) by lia. reflexivity.
Qed.

Lemma fetch_length m a n : length (fetch m a n) = n.
Proof. revert a; induction n as [|n IH]; intros a; simpl; [reflexivity | now rewrite IH]. Qed.

Lemma code_at_app m a c1 c2 :
  code_at m a (c1 ++ c2) -> code_at m a c1 /\ code_at m (a + lenZ c1) c2.
Proof.
  unfold code_at, lenZ. rewrite app_length, fetch_app. intros H.
  assert (Hl : length (fetch m a (length c1)) = length c1) by apply fetch_length.
  split.
  - apply (f_equal (firstn (length c1))) in H.
    rewrite firstn_app, firstn_app in H.
    rewrite Hl, Nat.sub_diag in H. cbn [firstn] in H. rewrite !app_nil_r in H.
    rewrite firstn_all2 in H by lia. rewrite firstn_all in H. exact H.
  - apply (f_equal (skipn (length c1))) in H.
    rewrite skipn_app, skipn_app in H.
    rewrite Hl, Nat.sub_diag in H. cbn [skipn] in H.
    rewrite skipn_all2 in H by lia. rewrite skipn_all in H. exact H.
Qed.

Lemma le_bytes4 x : 0 <= x < 2 ^ 32 -> le (bytes_le 4 x) = x.
Proof. intros; rewrite le_bytes_le. change (256 ^ Z.of_nat 4) with (2 ^ 32). apply Z.mod_small; lia. Qed.

Lemma astep_word s w i :
  0 <= w < 2 ^ 32 -> code_at (amem s) (pc s) (bytes_le 4 w) -> adecode w = Some i ->
  astep s = Some (aexec s i).
Proof.
  intros Hw Hc Hd. unfold astep. unfold code_at in Hc. rewrite bytes_le_length in Hc.
  rewrite Hc, le_bytes4 by exact Hw. now rewrite Hd.
Qed.

Lemma decode_movz imm : 0 <= imm < 65536 -> adecode (mov_word 2 0 imm) = Some (Movz 26 0 imm).
Proof.
  intros H. unfold adecode, field, mov_word. pow_lits.
  replace ((26 + imm * 32 + 0 * 2097152 + 310378496 + 2 * 536870912 + 2147483648) / 2147483648 mod 2) with 1
    by (Z.div_mod_to_equations; lia).
  replace ((26 + imm * 32 + 0 * 2097152 + 310378496 + 2 * 536870912 + 2147483648) / 8388608 mod 64) with 37
    by (Z.div_mod_to_equations; lia).
  replace ((26 + imm * 32 + 0 * 2097152 + 310378496 + 2 * 536870912 + 2147483648) / 536870912 mod 4) with 2
    by (Z.div_mod_to_equations; lia).
  cbn [Z.eqb Pos.eqb andb]. f_equal. f_equal; Z.div_mod_to_equations; lia.
Qed.

Lemma decode_movk hw imm : 0 <= imm < 65536 -> 0 <= hw < 4 ->
  adecode (mov_word 3 hw imm) = Some (Movk 26 hw imm).
Proof.
  intros H Hh. unfold adecode, field, mov_word. pow_lits.
  replace ((26 + imm * 32 + hw * 2097152 + 310378496 + 3 * 536870912 + 2147483648) / 2147483648 mod 2) with 1
    by (Z.div_mod_to_equations; lia).
  replace ((26 + imm * 32 + hw * 2097152 + 310378496 + 3 * 536870912 + 2147483648) / 8388608 mod 64) with 37
    by (Z.div_mod_to_equations; lia).
  replace ((26 + imm * 32 + hw * 2097152 + 310378496 + 3 * 536870912 + 2147483648) / 536870912 mod 4) with 3
    by (Z.div_mod_to_equations; lia).
  cbn [Z.eqb Pos.eqb andb]. f_equal. f_equal; Z.div_mod_to_equations; lia.
Qed.

Lemma decode_ldr tmp : 0 <= tmp < 32 -> adecode (4181721088 + 26 * 32 + tmp) = Some (Ldr tmp 26).
Proof.
  intros H. unfold adecode, field. pow_lits.
  replace ((4181721088 + 26 * 32 + tmp) / 2147483648 mod 2) with 1 by (Z.div_mod_to_equations; lia).
  replace ((4181721088 + 26 * 32 + tmp) / 8388608 mod 64) with 50 by (Z.div_mod_to_equations; lia).
  replace ((4181721088 + 26 * 32 + tmp) / 1024 mod 4194304) with 4083712 by (Z.div_mod_to_equations; lia).
  cbn [Z.eqb Pos.eqb andb]. f_equal. f_equal; Z.div_mod_to_equations; lia.
Qed.

Lemma decode_br tmp : 0 <= tmp < 32 -> adecode (3592355840 + tmp * 32) = Some (Br tmp).
Proof.
  intros H. unfold adecode, field. pow_lits.
  replace ((3592355840 + tmp * 32) / 2147483648 mod 2) with 1 by (Z.div_mod_to_equations; lia).
  replace ((3592355840 + tmp * 32) / 8388608 mod 64) with 44 by (Z.div_mod_to_equations; lia).
  replace ((3592355840 + tmp * 32) / 1024 mod 4194304) with 3508160 by (Z.div_mod_to_equations; lia).
  replace ((3592355840 + tmp * 32) / 1 mod 32) with 0 by (Z.div_mod_to_equations; lia).
  cbn [Z.eqb Pos.eqb andb]. f_equal. f_equal; Z.div_mod_to_equations; lia.
Qed.

Lemma mov_word_range opc hw imm : 0 <= opc < 4 -> 0 <= hw < 4 -> 0 <= imm < 65536 ->
  0 <= mov_word opc hw imm < 2 ^ 32.
Proof. intros. unfold mov_word. pow_lits. lia. Qed.

Lemma a64_lane_range x k : 0 <= a64_lane x k < 65536.
Proof. unfold a64_lane. apply Z.mod_pos_bound. lia. Qed.

Lemma lanes_reassemble x : 0 <= x < 2 ^ 64 ->
  a64_lane x 0 + a64_lane x 1 * 2 ^ 16 + a64_lane x 2 * 2 ^ 32 + a64_lane x 3 * 2 ^ 48 = x.
Proof.
  intros H. unfold a64_lane. change (16 * 0) with 0. change (16 * 1) with 16.
  change (16 * 2) with 32. change (16 * 3) with 48. pow_lits. pow_lits.
  Z.div_mod_to_equations. lia.
Qed.

Lemma clear_lane_small y hw : 0 <= hw -> 0 <= y < 2 ^ (16 * hw) -> clear_lane y hw = y.
Proof.
  intros Hh Hy. unfold clear_lane. rewrite Z.div_small by lia. rewrite Z.mod_0_l by lia. lia.
Qed.

(* running the six instructions *)
Theorem a64_jump_runs s tmp x :
  0 <= x < 2 ^ 64 -> 0 <= tmp < 32 -> tmp <> 26 ->
  code_at (amem s) (pc s) (a64_jump tmp x) ->
  exists s', arun 6 s = Some s' /\ pc s' = mem64 (amem s) x /\ xr s' 26 = x /\
             amem s' = amem s /\ (forall r, r <> 26 -> r <> tmp -> xr s' r = xr s r).
Proof.
  intros Hx Ht Hne Hc. unfold a64_jump, a64_load_addr in Hc.
  pose proof (a64_lane_range x 0) as L0. pose proof (a64_lane_range x 1) as L1.
  pose proof (a64_lane_range x 2) as L2. pose proof (a64_lane_range x 3) as L3.
  repeat rewrite <- app_assoc in Hc.
  apply code_at_app in Hc as [C0 Hc]. apply code_at_app in Hc as [C1 Hc].
  apply code_at_app in Hc as [C2 Hc]. apply code_at_app in Hc as [C3 Hc].
  apply code_at_app in Hc as [C4 C5].
  unfold lenZ in *. rewrite !bytes_le_length in *. change (Z.of_nat 4) with 4 in *.
  cbn [arun].
  rewrite (astep_word s _ _ (mov_word_range 2 0 _ ltac:(lia) ltac:(lia) L0) C0 (decode_movz _ L0)).
  set (s1 := aexec s _).
  assert (P1 : pc s1 = pc s + 4) by reflexivity.
  rewrite (astep_word s1 (mov_word 3 1 (a64_lane x 1)) _ (mov_word_range 3 1 _ ltac:(lia) ltac:(lia) L1)
             ltac:(rewrite P1; exact C1) (decode_movk 1 _ L1 ltac:(lia))).
  set (s2 := aexec s1 _).
  assert (P2 : pc s2 = pc s + 4 + 4) by reflexivity.
  rewrite (astep_word s2 (mov_word 3 2 (a64_lane x 2)) _ (mov_word_range 3 2 _ ltac:(lia) ltac:(lia) L2)
             ltac:(rewrite P2; exact C2) (decode_movk 2 _ L2 ltac:(lia))).
  set (s3 := aexec s2 _).
  assert (P3 : pc s3 = pc s + 4 + 4 + 4) by reflexivity.
  rewrite (astep_word s3 (mov_word 3 3 (a64_lane x 3)) _ (mov_word_range 3 3 _ ltac:(lia) ltac:(lia) L3)
             ltac:(rewrite P3; exact C3) (decode_movk 3 _ L3 ltac:(lia))).
  set (s4 := aexec s3 _).
  assert (P4 : pc s4 = pc s + 4 + 4 + 4 + 4) by reflexivity.
  assert (R4 : xr s4 26 = x).
  { unfold s4, s3, s2, s1. cbn [aexec xr]. unfold upd. rewrite !Z.eqb_refl.
    change (16 * 0) with 0. change (2 ^ 0) with 1. rewrite Z.mul_1_r.
    rewrite (clear_lane_small (a64_lane x 0) 1) by (change (2 ^ (16 * 1)) with 65536; lia).
    rewrite (clear_lane_small _ 2)
      by (change (2 ^ (16 * 2)) with 4294967296; change (2 ^ (16 * 1)) with 65536; lia).
    rewrite (clear_lane_small _ 3)
      by (change (2 ^ (16 * 3)) with 281474976710656; change (2 ^ (16 * 2)) with 4294967296;
          change (2 ^ (16 * 1)) with 65536; lia).
    exact (lanes_reassemble x Hx). }
  assert (W4 : 0 <= 4181721088 + 26 * 32 + tmp < 2 ^ 32) by (pow_lits; lia).
  rewrite (astep_word s4 _ _ W4 ltac:(rewrite P4; exact C4) (decode_ldr tmp Ht)).
  set (s5 := aexec s4 _).
  assert (P5 : pc s5 = pc s + 4 + 4 + 4 + 4 + 4) by reflexivity.
  assert (W5 : 0 <= 3592355840 + tmp * 32 < 2 ^ 32) by (pow_lits; lia).
  rewrite (astep_word s5 _ _ W5 ltac:(rewrite P5; exact C5) (decode_br tmp Ht)).
  eexists; split; [reflexivity|].
  assert (M : amem s4 = amem s) by reflexivity.
  cbn [aexec pc xr amem]. unfold s5. cbn [aexec pc xr amem].
  unfold upd at 1. rewrite Z.eqb_refl. rewrite R4, M.
  split; [reflexivity|]. split.
  { unfold upd. destruct (26 =? tmp) eqn:E; [lia | exact R4]. }
  split; [reflexivity|].
  intros r Hr1 Hr2. unfold upd at 1. destruct (r =? tmp) eqn:E; [lia|].
  unfold s4, s3, s2, s1. cbn [aexec xr]. unfold upd.
  destruct (r =? 26) eqn:E2; [lia | reflexivity].
Qed.
