(* C12 proofs on the mocker-level model. *)
From Coq Require Import List ZArith Bool Arith Lia.
From Goom Require Import Model.Stub Model.MockerLevel.
Import ListNotations.
Open Scope Z_scope.

Lemma upd_same {A} (f : nat -> A) k v : upd f k v k = v.
Proof. unfold upd. now rewrite Nat.eqb_refl. Qed.
Lemma upd_other {A} (f : nat -> A) k v x : x <> k -> upd f k v x = f x.
Proof. unfold upd. intros H. apply Nat.eqb_neq in H. now rewrite H. Qed.

Lemma nth_error_set_nth {A} (l : list A) n k x :
  nth_error (set_nth n l x) k =
  if Nat.eqb k n then (if Nat.ltb n (length l) then Some x else None) else nth_error l k.
Proof.
  revert n k; induction l as [|y l IH]; intros n k.
  - assert (E : set_nth n (@nil A) x = []) by (destruct n; reflexivity). rewrite E.
    cbn [length]. assert (E2 : (n <? 0)%nat = false) by (apply Nat.ltb_ge; lia). rewrite E2.
    destruct (Nat.eqb k n); destruct k; reflexivity.
  - destruct n as [|n]; destruct k as [|k]; cbn [set_nth nth_error length]; try reflexivity.
    rewrite IH. cbn [Nat.eqb]. destruct (Nat.eqb k n); [|reflexivity].
    change (S n <? S (length l))%nat with (n <? length l)%nat. reflexivity.
Qed.

(* a second lookup of the same target through one builder continues the live mocker ... *)
Theorem cache_continues s b t id m :
  mcache s b t = Some id -> nth_error (mks s) id = Some m -> k_canceled m = false ->
  mhandles (m_lookup s b t) = mhandles s ++ [id] /\ mks (m_lookup s b t) = mks s /\
  installed (m_lookup s b t) = installed s.
Proof. intros Hc Hm Hcn. unfold m_lookup. rewrite Hc, Hm, Hcn. repeat split. Qed.

(* ... and starts from scratch once it was cancelled *)
Theorem lookup_after_cancel_is_fresh s b t id m :
  mcache s b t = Some id -> nth_error (mks s) id = Some m -> k_canceled m = true ->
  mhandles (m_lookup s b t) = mhandles s ++ [length (mks s)] /\
  nth_error (mks (m_lookup s b t)) (length (mks s)) = Some {| k_target := t; k_when := None; k_canceled := false |}.
Proof.
  intros Hc Hm Hcn. unfold m_lookup. rewrite Hc, Hm, Hcn. cbn [mhandles mks]. split; [reflexivity|].
  rewrite nth_error_app2 by lia. rewrite Nat.sub_diag. reflexivity.
Qed.

(* every lookup consumes the Pkg override of its builder and of no other builder; a Var lookup does not *)
Theorem pkg_applies_to_next_lookup_only s b t p :
  mpkg (mstep 0 s (MPkg b p)) b = Some p /\
  mpkg (m_lookup (mstep 0 s (MPkg b p)) b t) b = None /\
  (forall b', b' <> b -> mpkg (m_lookup s b t) b' = mpkg s b') /\
  mpkg (mstep 0 s (MVarLookup b)) = mpkg s.
Proof.
  cbn [mstep mpkg]. split; [apply upd_same|]. split.
  - unfold m_lookup. cbn [mcache mks mpkg].
    destruct (mcache s b t) as [id|]; [destruct (nth_error (mks s) id) as [m|]; [destruct (k_canceled m)|]|];
      cbn [mpkg]; apply upd_same.
  - split; [|reflexivity]. intros b' Hne. unfold m_lookup.
    destruct (mcache s b t) as [id|]; [destruct (nth_error (mks s) id) as [m|]; [destruct (k_canceled m)|]|];
      cbn [mpkg]; now apply upd_other.
Qed.

(* Apply supersedes earlier stubs: the callback is installed and the mocker's When is discarded *)
Theorem apply_supersedes s h id m k :
  nth_error (mhandles s) h = Some id -> nth_error (mks s) id = Some m ->
  let s' := mstep 0 s (MApply h k) in
  installed s' (k_target m) = Some (ICallback k) /\
  nth_error (mks s') id = Some {| k_target := k_target m; k_when := None; k_canceled := false |} /\
  (forall t, t <> k_target m -> installed s' t = installed s t).
Proof.
  intros Hh Hm. cbn [mstep]. rewrite Hh, Hm. cbn [with_mk installed mks]. split; [apply upd_same|]. split.
  - rewrite nth_error_set_nth, Nat.eqb_refl.
    assert (Hl : (id <? length (mks s))%nat = true) by (apply Nat.ltb_lt; apply nth_error_Some; congruence).
    now rewrite Hl.
  - intros t Ht. now apply upd_other.
Qed.

(* a Return / When on a mocker without a When (fresh, or after Apply, or after Cancel) installs the stub *)
Theorem return_installs_stub s h id m r :
  nth_error (mhandles s) h = Some id -> nth_error (mks s) id = Some m -> k_when m = None ->
  installed (mstep 0 s (MReturn h r)) (k_target m) = Some (IStub id).
Proof. intros Hh Hm Hw. cbn [mstep]. rewrite Hh, Hm, Hw. cbn [with_mk installed]. apply upd_same. Qed.

Theorem when_installs_stub s h id m v r :
  nth_error (mhandles s) h = Some id -> nth_error (mks s) id = Some m -> k_when m = None ->
  installed (mstep 0 s (MWhen h v r)) (k_target m) = Some (IStub id).
Proof. intros Hh Hm Hw. cbn [mstep]. rewrite Hh, Hm, Hw. cbn [with_mk installed]. apply upd_same. Qed.

(* Cancel: the target runs the original again, the configuration is gone, other targets are untouched *)
Theorem cancel_restores_original s id m :
  nth_error (mks s) id = Some m ->
  (installed (m_cancel s id) (k_target m) = None) /\
  (nth_error (mks (m_cancel s id)) id = Some {| k_target := k_target m; k_when := None; k_canceled := true |}) /\
  (forall t, t <> k_target m -> installed (m_cancel s id) t = installed s t).
Proof.
  intros Hm. unfold m_cancel. rewrite Hm. cbn [with_mk installed mks]. split; [apply upd_same|]. split.
  - rewrite nth_error_set_nth, Nat.eqb_refl.
    assert (Hl : (id <? length (mks s))%nat = true) by (apply Nat.ltb_lt; apply nth_error_Some; congruence).
    now rewrite Hl.
  - intros t Ht. now apply upd_other.
Qed.

Theorem probe_original s t a : installed s t = None -> probe s t a = (s, POriginal).
Proof. intros H. unfold probe. now rewrite H. Qed.

Theorem probe_callback s t a k : installed s t = Some (ICallback k) -> probe s t a = (s, PCallback k).
Proof. intros H. unfold probe. now rewrite H. Qed.
