(* C10 -- proofs about Model/SymLookup.v *)
From Goom Require Import Base.MachineInt Proofs.JumpEncProofs Proofs.WrapTac Model.SymLookup.
From Coq Require Import List ZArith Bool Lia.
Import ListNotations.
Open Scope Z_scope.

Lemma first_match_in l n a : first_match l n = Some a -> In (n, a) l.
Proof.
  induction l as [|[n' a'] r IH]; simpl; [discriminate|]. destruct (n =? n') eqn:E.
  - intros [= <-]. apply Z.eqb_eq in E. subst. left. reflexivity.
  - intros H. right. apply IH. exact H.
Qed.

Lemma first_match_none l n : first_match l n = None -> forall a, ~ In (n, a) l.
Proof.
  induction l as [|[n' a'] r IH]; simpl; intros H a; [tauto|]. destruct (n =? n') eqn:E; [discriminate|].
  intros [Hc|Hc]; [inversion Hc; subst; rewrite Z.eqb_refl in E; discriminate|]. apply (IH H a Hc).
Qed.

(* names unique: the first match is the only entry *)
Lemma first_match_unique l n a : NoDup (map fst l) -> In (n, a) l -> first_match l n = Some a.
Proof.
  induction l as [|[n' a'] r IH]; simpl; intros Hnd Hin; [tauto|]. inversion Hnd as [|? ? Hni Hnd']; subst.
  destruct Hin as [Hin|Hin].
  - inversion Hin; subst. rewrite Z.eqb_refl. reflexivity.
  - destruct (n =? n') eqn:E.
    + apply Z.eqb_eq in E. subst. exfalso. apply Hni. apply (in_map fst) in Hin. exact Hin.
    + apply IH; assumption.
Qed.

Section Facts.
  Variable fn_anchor var_anchor fn_anchor_mem var_anchor_mem : Z.
  Local Notation find_func := (find_func fn_anchor var_anchor fn_anchor_mem var_anchor_mem).
  Local Notation find_var := (find_var fn_anchor var_anchor fn_anchor_mem var_anchor_mem).
  Local Notation alignments := (alignments fn_anchor var_anchor fn_anchor_mem var_anchor_mem).

  (* a lookup never yields the address of another symbol: whatever it returns is the table address of an entry with
     exactly this name, plus the slide *)
  Theorem find_func_sound t n a : find_func t n = Some a ->
    exists e, In (n, e) (t_funcs t) /\ a = wrapu 64 (e + fst (alignments t)).
  Proof.
    unfold SymLookup.find_func, lookup_func. destruct (t_readable t); [|discriminate].
    destruct (first_match (t_funcs t) n) as [e|] eqn:E; [|discriminate]. intros [= <-].
    exists e. split; [apply first_match_in; exact E|reflexivity].
  Qed.

  Theorem find_var_sound t n a : find_var t n = Some a ->
    exists e, In (n, e) (t_syms t) /\ a = wrapu 64 (e + snd (alignments t)).
  Proof.
    unfold SymLookup.find_var, lookup_sym. destruct (t_readable t); [|discriminate].
    destruct (first_match (t_syms t) n) as [e|] eqn:E; [|discriminate]. intros [= <-].
    exists e. split; [apply first_match_in; exact E|reflexivity].
  Qed.

  (* names that are not in the table -- absent, near-miss, a prefix, another package -- give an error *)
  Theorem absent_is_error t n : (forall e, ~ In (n, e) (t_funcs t)) -> find_func t n = None.
  Proof.
    intros H. destruct (find_func t n) as [a|] eqn:E; [|reflexivity].
    destruct (find_func_sound _ _ _ E) as (e & Hin & _). exfalso. apply (H e Hin).
  Qed.

  Theorem absent_var_is_error t n : (forall e, ~ In (n, e) (t_syms t)) -> find_var t n = None.
  Proof.
    intros H. destruct (find_var t n) as [a|] eqn:E; [|reflexivity].
    destruct (find_var_sound _ _ _ E) as (e & Hin & _). exfalso. apply (H e Hin).
  Qed.

  (* a table that cannot be read (stripped of pclntab access, position-independent layout): every lookup errs *)
  Theorem unreadable_is_error t n : t_readable t = false -> find_func t n = None /\ find_var t n = None.
  Proof. intros H. unfold SymLookup.find_func, SymLookup.find_var, lookup_func, lookup_sym. rewrite H. split; reflexivity. Qed.

  (* stripped binary: functions still resolve through pclntab, variables err (never an address) *)
  Theorem stripped_vars_error t n : t_syms t = [] -> find_var t n = None.
  Proof. intros H. unfold SymLookup.find_var, lookup_sym. rewrite H. destruct (t_readable t); reflexivity. Qed.

  (* exactness: if the loader maps every function by one slide (hypothesis: measured on every symbol by the harness)
     and names are unique, the lookup of every present name yields exactly its run-time address *)
  Theorem lookup_exact t (mem : Z -> Z) delta n e :
    t_readable t = true -> NoDup (map fst (t_funcs t)) ->
    (forall n' e', In (n', e') (t_funcs t) -> mem n' = wrapu 64 (e' + delta)) ->
    (exists ae, In (fn_anchor, ae) (t_funcs t)) -> fn_anchor_mem = mem fn_anchor ->
    In (n, e) (t_funcs t) -> find_func t n = Some (mem n).
  Proof.
    intros Hr Hnd Hslide [ae Ha] Hmem Hin.
    unfold SymLookup.find_func, SymLookup.alignments, lookup_func. rewrite Hr.
    rewrite (first_match_unique _ _ _ Hnd Hin), (first_match_unique _ _ _ Hnd Ha).
    destruct (lookup_sym t var_anchor); cbn [fst]; f_equal; rewrite (Hslide _ _ Hin), Hmem, (Hslide _ _ Ha); wrap_eq.
  Qed.

  Theorem lookup_var_exact t (mem : Z -> Z) delta n e :
    t_readable t = true -> NoDup (map fst (t_syms t)) ->
    (forall n' e', In (n', e') (t_syms t) -> mem n' = wrapu 64 (e' + delta)) ->
    (exists fe, In (fn_anchor, fe) (t_funcs t)) -> NoDup (map fst (t_funcs t)) ->
    (exists ae, In (var_anchor, ae) (t_syms t)) -> var_anchor_mem = mem var_anchor ->
    In (n, e) (t_syms t) -> find_var t n = Some (mem n).
  Proof.
    intros Hr Hnd Hslide [fe Hf] Hndf [ae Ha] Hmem Hin.
    unfold SymLookup.find_var, SymLookup.alignments, lookup_func, lookup_sym. rewrite Hr.
    rewrite (first_match_unique _ _ _ Hnd Hin), (first_match_unique _ _ _ Hndf Hf), (first_match_unique _ _ _ Hnd Ha).
    simpl. f_equal. rewrite (Hslide _ _ Hin), Hmem, (Hslide _ _ Ha). wrap_eq.
  Qed.
End Facts.
