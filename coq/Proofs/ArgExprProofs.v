(* C18 -- proofs about the equality cascade and the Any / Equals / In expressions of Model/ArgExpr.v *)
From Coq Require Import List ZArith Bool Arith Lia.
From Goom Require Import Model.ArgExpr.
Import ListNotations.
Open Scope Z_scope.

(* ---------------------------------------------------------------- induction principle for nested values *)
Section GvalInd.
  Variable P : gval -> Prop.
  Hypothesis HInt : forall w z, P (VInt w z).
  Hypothesis HUint : forall w z, P (VUint w z).
  Hypothesis HFloat : forall w b, P (VFloat w b).
  Hypothesis HComplex : forall r i, P (VComplex r i).
  Hypothesis HString : forall s, P (VString s).
  Hypothesis HBool : forall b, P (VBool b).
  Hypothesis HNil : forall k, P (VNil k).
  Hypothesis HNilIface : P VNilIface.
  Hypothesis HPtr : forall a v, P v -> P (VPtr a v).
  Hypothesis HIface : forall v, P v -> P (VIface v).
  Hypothesis HStruct : forall fs, Forall P fs -> P (VStruct fs).
  Hypothesis HArray : forall fs, Forall P fs -> P (VArray fs).
  Hypothesis HSlice : forall fs, Forall P fs -> P (VSlice fs).
  Hypothesis HMap : forall kvs, Forall (fun kv => P (fst kv) /\ P (snd kv)) kvs -> P (VMap kvs).
  Hypothesis HFunc : forall i, P (VFunc i).
  Hypothesis HChan : forall i, P (VChan i).
  Hypothesis HOther : P VOther.

  Fixpoint gval_ind' (v : gval) : P v :=
    match v with
    | VInt w z => HInt w z
    | VUint w z => HUint w z
    | VFloat w b => HFloat w b
    | VComplex r i => HComplex r i
    | VString s => HString s
    | VBool b => HBool b
    | VNil k => HNil k
    | VNilIface => HNilIface
    | VPtr a x => HPtr a x (gval_ind' x)
    | VIface x => HIface x (gval_ind' x)
    | VStruct fs => HStruct fs ((fix go (l : list gval) : Forall P l :=
                       match l with [] => Forall_nil _ | x :: r => Forall_cons x (gval_ind' x) (go r) end) fs)
    | VArray fs => HArray fs ((fix go (l : list gval) : Forall P l :=
                       match l with [] => Forall_nil _ | x :: r => Forall_cons x (gval_ind' x) (go r) end) fs)
    | VSlice fs => HSlice fs ((fix go (l : list gval) : Forall P l :=
                       match l with [] => Forall_nil _ | x :: r => Forall_cons x (gval_ind' x) (go r) end) fs)
    | VMap kvs => HMap kvs ((fix go (l : list (gval * gval)) : Forall (fun kv => P (fst kv) /\ P (snd kv)) l :=
                       match l with
                       | [] => Forall_nil _
                       | kv :: r => Forall_cons kv (conj (gval_ind' (fst kv)) (gval_ind' (snd kv))) (go r)
                       end) kvs)
    | VFunc i => HFunc i
    | VChan i => HChan i
    | VOther => HOther
    end.
End GvalInd.

(* ---------------------------------------------------------------- deep_eq through generic list comparison *)
Fixpoint list_eq2 {A} (f : A -> A -> bool) (l l' : list A) : bool :=
  match l, l' with [], [] => true | x :: r, y :: r' => f x y && list_eq2 f r r' | _, _ => false end.

Definition pair_eq (kv kv' : gval * gval) : bool := deep_eq (fst kv) (fst kv') && deep_eq (snd kv) (snd kv').

Lemma deep_eq_struct fs fs' : deep_eq (VStruct fs) (VStruct fs') = list_eq2 deep_eq fs fs'.
Proof. revert fs'; induction fs as [|x r IH]; intros [|y r']; simpl; try reflexivity. f_equal. apply IH. Qed.
Lemma deep_eq_array fs fs' : deep_eq (VArray fs) (VArray fs') = list_eq2 deep_eq fs fs'.
Proof. revert fs'; induction fs as [|x r IH]; intros [|y r']; simpl; try reflexivity. f_equal. apply IH. Qed.
Lemma deep_eq_slice fs fs' : deep_eq (VSlice fs) (VSlice fs') = list_eq2 deep_eq fs fs'.
Proof. revert fs'; induction fs as [|x r IH]; intros [|y r']; simpl; try reflexivity. f_equal. apply IH. Qed.
Lemma deep_eq_map kvs kvs' : deep_eq (VMap kvs) (VMap kvs') = list_eq2 pair_eq kvs kvs'.
Proof.
  revert kvs'; induction kvs as [|[k v] r IH]; intros [|[k' v'] r']; simpl; try reflexivity.
  unfold pair_eq at 1; simpl. f_equal. apply IH.
Qed.

Lemma list_eq2_sym {A} (f : A -> A -> bool) l : Forall (fun x => forall y, f x y = f y x) l ->
  forall l', list_eq2 f l l' = list_eq2 f l' l.
Proof.
  induction 1 as [|x r Hx _ IH]; intros [|y r']; simpl; try reflexivity. rewrite Hx, IH. reflexivity.
Qed.

Lemma zlist_eqb_sym a : forall b, zlist_eqb a b = zlist_eqb b a.
Proof. induction a as [|x a IH]; intros [|y b]; simpl; try reflexivity. rewrite Z.eqb_sym, IH. reflexivity. Qed.

Lemma zlist_eqb_eq a : forall b, zlist_eqb a b = true <-> a = b.
Proof.
  induction a as [|x a IH]; intros [|y b]; simpl; split; intros H; try reflexivity; try discriminate.
  - apply andb_true_iff in H. destruct H as [H1 H2]. apply Z.eqb_eq in H1. apply IH in H2. subst. reflexivity.
  - inversion H; subst. rewrite Z.eqb_refl. simpl. apply IH. reflexivity.
Qed.

Lemma nilk_eqb_sym a b : nilk_eqb a b = nilk_eqb b a.
Proof. destruct a, b; reflexivity. Qed.

Lemma eqb_bool_sym a b : Bool.eqb a b = Bool.eqb b a.
Proof. destruct a, b; reflexivity. Qed.

Lemma deep_eq_sym : forall a b, deep_eq a b = deep_eq b a.
Proof.
  induction a using gval_ind'; intros y; destruct y; try reflexivity.
  - simpl. rewrite (Z.eqb_sym w), (Z.eqb_sym z). reflexivity.
  - simpl. rewrite (Z.eqb_sym w), (Z.eqb_sym z). reflexivity.
  - simpl. rewrite (Z.eqb_sym w), (Z.eqb_sym b). reflexivity.
  - simpl. rewrite (Z.eqb_sym r), (Z.eqb_sym i). reflexivity.
  - simpl. apply zlist_eqb_sym.
  - simpl. apply eqb_bool_sym.
  - simpl. apply nilk_eqb_sym.
  - simpl. apply IHa.
  - simpl. apply IHa.
  - rewrite !deep_eq_struct. apply list_eq2_sym. assumption.
  - rewrite !deep_eq_array. apply list_eq2_sym. assumption.
  - rewrite !deep_eq_slice. apply list_eq2_sym. assumption.
  - rewrite !deep_eq_map. apply list_eq2_sym.
    eapply Forall_impl; [|eassumption]. intros [k v] [Hk Hv] [k' v']. unfold pair_eq; simpl in *. rewrite Hk, Hv. reflexivity.
  - simpl. apply Z.eqb_sym.
Qed.

(* deep equality is equality up to pointer addresses, on values that contain no func *)
Fixpoint func_free (v : gval) : bool :=
  match v with
  | VFunc _ | VOther => false
  | VPtr _ x | VIface x => func_free x
  | VStruct fs | VArray fs | VSlice fs => forallb func_free fs
  | VMap kvs => forallb (fun kv => func_free (fst kv) && func_free (snd kv)) kvs
  | _ => true
  end.

Fixpoint erase (v : gval) : gval :=
  match v with
  | VPtr _ x => VPtr 0 (erase x)
  | VIface x => VIface (erase x)
  | VStruct fs => VStruct (map erase fs)
  | VArray fs => VArray (map erase fs)
  | VSlice fs => VSlice (map erase fs)
  | VMap kvs => VMap (map (fun kv => (erase (fst kv), erase (snd kv))) kvs)
  | _ => v
  end.

Lemma list_eq2_spec {A} (f : A -> A -> bool) (g : A -> A) (ok : A -> bool) l :
  Forall (fun x => ok x = true -> forall y, f x y = true <-> g x = g y) l ->
  forallb ok l = true -> forall l', list_eq2 f l l' = true <-> map g l = map g l'.
Proof.
  induction 1 as [|x r Hx _ IH]; intros Hok [|y r']; simpl; split; intros H; try reflexivity; try discriminate.
  - simpl in Hok. apply andb_true_iff in Hok. destruct Hok as [Ho1 Ho2].
    apply andb_true_iff in H. destruct H as [H1 H2].
    apply (Hx Ho1) in H1. apply (IH Ho2) in H2. rewrite H1, H2. reflexivity.
  - simpl in Hok. apply andb_true_iff in Hok. destruct Hok as [Ho1 Ho2].
    inversion H as [[H1 H2]]. apply andb_true_iff. split; [apply (Hx Ho1); assumption | apply (IH Ho2); assumption].
Qed.

Lemma nilk_eqb_eq a b : nilk_eqb a b = true <-> a = b.
Proof. destruct a, b; simpl; split; intros H; try reflexivity; discriminate. Qed.

Lemma deep_eq_spec : forall a, func_free a = true -> forall b, deep_eq a b = true <-> erase a = erase b.
Proof.
  induction a using gval_ind'; intros Hff y.
  - destruct y; simpl; split; intros H; try discriminate.
    + apply andb_true_iff in H. destruct H as [H1 H2]. apply Z.eqb_eq in H1, H2. subst. reflexivity.
    + inversion H; subst. rewrite !Z.eqb_refl. reflexivity.
  - destruct y; simpl; split; intros H; try discriminate.
    + apply andb_true_iff in H. destruct H as [H1 H2]. apply Z.eqb_eq in H1, H2. subst. reflexivity.
    + inversion H; subst. rewrite !Z.eqb_refl. reflexivity.
  - destruct y; simpl; split; intros H; try discriminate.
    + apply andb_true_iff in H. destruct H as [H1 H2]. apply Z.eqb_eq in H1, H2. subst. reflexivity.
    + inversion H; subst. rewrite !Z.eqb_refl. reflexivity.
  - destruct y; simpl; split; intros H; try discriminate.
    + apply andb_true_iff in H. destruct H as [H1 H2]. apply Z.eqb_eq in H1, H2. subst. reflexivity.
    + inversion H; subst. rewrite !Z.eqb_refl. reflexivity.
  - destruct y; simpl; split; intros H; try discriminate.
    + apply zlist_eqb_eq in H. subst. reflexivity.
    + inversion H; subst. apply zlist_eqb_eq. reflexivity.
  - destruct y; simpl; split; intros H; try discriminate.
    + apply Bool.eqb_prop in H. subst. reflexivity.
    + inversion H; subst. apply Bool.eqb_reflx.
  - destruct y; simpl; split; intros H; try discriminate.
    + apply nilk_eqb_eq in H. subst. reflexivity.
    + inversion H; subst. apply nilk_eqb_eq. reflexivity.
  - destruct y; simpl; split; intros H; try discriminate; reflexivity.
  - simpl in Hff. destruct y; simpl; split; intros H; try discriminate.
    + apply (IHa Hff) in H. rewrite H. reflexivity.
    + inversion H as [H1]. apply (IHa Hff). assumption.
  - simpl in Hff. destruct y; simpl; split; intros H; try discriminate.
    + apply (IHa Hff) in H. rewrite H. reflexivity.
    + inversion H as [H1]. apply (IHa Hff). assumption.
  - simpl in Hff. destruct y as [| | | | | | | | | |gs|gs|gs|gs| | |]; try (simpl; split; intros H0; discriminate).
    rewrite deep_eq_struct. cbn [erase]. rewrite (list_eq2_spec deep_eq erase func_free fs H Hff).
    split; intros H0; [rewrite H0; reflexivity | inversion H0; reflexivity].
  - simpl in Hff. destruct y as [| | | | | | | | | |gs|gs|gs|gs| | |]; try (simpl; split; intros H0; discriminate).
    rewrite deep_eq_array. cbn [erase]. rewrite (list_eq2_spec deep_eq erase func_free fs H Hff).
    split; intros H0; [rewrite H0; reflexivity | inversion H0; reflexivity].
  - simpl in Hff. destruct y as [| | | | | | | | | |gs|gs|gs|gs| | |]; try (simpl; split; intros H0; discriminate).
    rewrite deep_eq_slice. cbn [erase]. rewrite (list_eq2_spec deep_eq erase func_free fs H Hff).
    split; intros H0; [rewrite H0; reflexivity | inversion H0; reflexivity].
  - simpl in Hff. destruct y as [| | | | | | | | | |gs|gs|gs|gs| | |]; try (simpl; split; intros H0; discriminate).
    rewrite deep_eq_map. cbn [erase].
    rewrite (list_eq2_spec pair_eq (fun kv => (erase (fst kv), erase (snd kv)))
               (fun kv => func_free (fst kv) && func_free (snd kv)) kvs).
    + split; intros H0; [rewrite H0; reflexivity | inversion H0; reflexivity].
    + eapply Forall_impl; [|eassumption]. intros [k v] [Hk Hv] Hok [k' v']. simpl in *.
      apply andb_true_iff in Hok. destruct Hok as [Hok1 Hok2]. unfold pair_eq; simpl.
      rewrite andb_true_iff, (Hk Hok1 k'), (Hv Hok2 v'). split.
      * intros [E1 E2]. rewrite E1, E2. reflexivity.
      * intros E. inversion E. split; reflexivity.
    + assumption.
  - simpl in Hff. discriminate.
  - destruct y; simpl; split; intros H; try discriminate.
    + apply Z.eqb_eq in H. subst. reflexivity.
    + inversion H; subst. apply Z.eqb_refl.
  - simpl in Hff. discriminate.
Qed.

(* ---------------------------------------------------------------- same_type, go_eq *)
Lemma same_type_sym : forall a b, same_type a b = same_type b a.
Proof.
  induction a using gval_ind'; intros y; destruct y; simpl; try reflexivity;
    try (apply Z.eqb_sym); try (apply nilk_eqb_sym);
    try (match goal with k : nilk, k' : nilk |- _ => destruct k, k'; reflexivity end);
    try (match goal with k : nilk |- _ => destruct k; reflexivity end); auto.
Qed.

Lemma go_eq_sym a b : go_eq a b = go_eq b a.
Proof.
  unfold go_eq. rewrite (andb_comm (is_nil a)), (orb_comm (is_nil a)).
  destruct (is_nil b && is_nil a); [reflexivity|]. destruct (is_nil b || is_nil a); [reflexivity|].
  destruct (deref a) eqn:Ea, (deref b) eqn:Eb; try reflexivity; try (rewrite deep_eq_sym; reflexivity).
  apply Z.eqb_sym.
Qed.

Lemma same_type_deref a b :
  same_type a b = true -> is_nil a = false -> is_nil b = false -> same_type (deref a) (deref b) = true.
Proof.
  intros H Ha Hb. destruct a, b; simpl in *; try discriminate; try assumption; try reflexivity.
Qed.

Section EqualFacts.
  Variable fmtv : gval -> list Z.
  Variable str_to_float : list Z -> option gval.
  Variable str_to_number : list Z -> option gval.
  Variable to_bool : gval -> option bool.
  (* fmt's %v is injective on numbers of one type (validated on every run for ordinary values) *)
  Hypothesis fmt_inj : forall l r, is_num l = true -> is_num r = true -> same_type l r = true ->
    zlist_eqb (fmtv l) (fmtv r) = deep_eq l r.

  Local Notation equal := (equal fmtv str_to_float str_to_number to_bool).

  Lemma equal_core l r : same_type l r = true ->
    match num_string str_to_float str_to_number l r with
    | Some b => b
    | None =>
      if is_num l && is_num r then zlist_eqb (fmtv l) (fmtv r)
      else match bool_equals to_bool l r with
           | Some b => b
           | None => match l, r with VFunc i, VFunc j => i =? j | _, _ => deep_eq l r end
           end
    end = match l, r with VFunc i, VFunc j => i =? j | _, _ => deep_eq l r end.
  Proof.
    intros H.
    destruct l, r; simpl in H; try discriminate; try reflexivity;
      try (unfold num_string; simpl; apply fmt_inj; [reflexivity | reflexivity | exact H]);
      repeat match goal with k : nilk |- _ => destruct k end; try discriminate; reflexivity.
  Qed.

  (* Equals(x) accepts a same-typed argument exactly when it equals x *)
  Theorem equal_same_type x a : same_type x a = true -> equal x a = go_eq x a.
  Proof.
    intros H. unfold ArgExpr.equal, go_eq.
    destruct (is_nil x && is_nil a) eqn:E1; [reflexivity|].
    destruct (is_nil x || is_nil a) eqn:E2; [reflexivity|].
    apply orb_false_iff in E2. destruct E2 as [Hx Ha].
    pose proof (same_type_deref x a H Hx Ha) as Hd.
    cbv zeta. exact (equal_core _ _ Hd).
  Qed.

  Theorem equal_sym x a : same_type x a = true -> equal x a = equal a x.
  Proof.
    intros H. rewrite (equal_same_type x a H). rewrite (equal_same_type a x); [apply go_eq_sym|].
    rewrite same_type_sym. exact H.
  Qed.

  Local Notation aeval := (aeval fmtv str_to_float str_to_number to_bool).
  Local Notation seval := (seval fmtv str_to_float str_to_number to_bool).
  Local Notation all2 := (all2 fmtv str_to_float str_to_number to_bool).

  Theorem any_true input v : aeval AAny input v = Some true.
  Proof. reflexivity. Qed.

  Lemma all2_single s a : all2 [s] [a] = seval s a.
  Proof. simpl. apply andb_true_r. Qed.

  (* In(x1..xn) on a one-parameter, non-variadic target accepts exactly the union of its alternatives *)
  Theorem in_is_union (ss : list sexpr) a e :
    resolve_in (map IOne ss) 1 = Some e ->
    aeval e [a] false = Some (existsb (fun s => seval s a) ss).
  Proof.
    unfold resolve_in. destruct (forallb _ _); [|discriminate]. intros E. inversion E; subst. clear E.
    simpl. f_equal. induction ss as [|s r IH]; simpl; [reflexivity|].
    rewrite IH, andb_true_r. reflexivity.
  Qed.

  Corollary in_values_is_union_of_equals (xs : list gval) a e :
    resolve_in (map (fun x => IOne (SEq x)) xs) 1 = Some e ->
    aeval e [a] false = Some (existsb (fun x => match aeval (AEquals x) [a] false with Some b => b | None => false end) xs).
  Proof.
    intros H. rewrite <- (map_map SEq IOne) in H. rewrite (in_is_union _ _ _ H). f_equal. clear H.
    induction xs as [|x r IH]; simpl; [reflexivity|]. rewrite IH. reflexivity.
  Qed.

  Lemma resolve_in_single_total ss : exists e, resolve_in (map IOne ss) 1 = Some e.
  Proof.
    unfold resolve_in. replace (forallb _ (map IOne ss)) with true; [eexists; reflexivity|].
    induction ss as [|s r IH]; simpl; [reflexivity|]. rewrite <- IH. reflexivity.
  Qed.

  (* evaluating never fails on a single well-typed input; the answer is a function of expression and input only *)
  Theorem eval_total e a : exists b, aeval e [a] false = Some b.
  Proof. destruct e; simpl; eexists; reflexivity. Qed.

  (* an In alternative of another length never matches, and does not stop the scan (F04-family) *)
  Lemma all2_length es input : all2 es input = true -> length es = length input.
  Proof.
    revert input; induction es as [|e r IH]; intros [|a input]; simpl; intros H; try reflexivity; try discriminate.
    apply andb_true_iff in H. destruct H as [_ H]. f_equal. apply IH. exact H.
  Qed.

  Theorem in_scan_continues alts1 one alts2 input :
    existsb (fun o => all2 o input) alts1 = false ->
    all2 one input = true ->
    aeval (AIn (alts1 ++ one :: alts2)) input false = Some true.
  Proof.
    intros _ H. simpl. f_equal. rewrite existsb_app. simpl. rewrite H. simpl. apply orb_true_r.
  Qed.
End EqualFacts.

(* the injectivity hypothesis is satisfiable: a tagged rendering meets it *)
Definition fmt_tagged (v : gval) : list Z :=
  match v with VInt w z => [0; w; z] | VUint w z => [1; w; z] | VFloat w b => [2; w; b] | _ => [] end.
Lemma fmt_tagged_inj l r : is_num l = true -> is_num r = true -> same_type l r = true ->
  zlist_eqb (fmt_tagged l) (fmt_tagged r) = deep_eq l r.
Proof.
  destruct l, r; simpl; intros H1 H2 H3; try discriminate; rewrite ?andb_true_r; reflexivity.
Qed.
