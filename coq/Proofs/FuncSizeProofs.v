From Coq Require Import List ZArith Bool Lia.
From Goom Require Import Model.FuncSize.
Import ListNotations.
Open Scope Z_scope.

Definition wf_item (i : item) : Prop := match i with IOrd len _ => 1 <= len <= 15 | _ => True end.

Lemma scan_true_pad cur s : scan true cur s = cur + pad_len s.
Proof.
  revert cur; induction s as [|i r IH]; intros cur; cbn [scan pad_len]; [lia|].
  destruct i as [len pn|pn|]; [lia| |lia]. destruct pn; [lia|]. rewrite IH. lia.
Qed.

(* the scan reports exactly: the function's instructions plus the INT3 padding behind them -- it never includes a byte
   of the first real instruction behind the padding, nor anything behind a prologue match or an undecodable position *)
Theorem func_size_exact s : func_size s = body_len s + pad_len (after_body s).
Proof.
  unfold func_size. assert (H : forall cur, scan false cur s = cur + body_len s + pad_len (after_body s)).
  { induction s as [|i r IH]; intros c; cbn [scan body_len after_body pad_len]; [lia|].
    destruct i as [len pn|pn|].
    - destruct pn; cbn [scan body_len after_body pad_len]; [lia|]. rewrite IH. lia.
    - destruct pn; cbn [scan body_len after_body pad_len]; [lia|]. rewrite scan_true_pad. lia.
    - cbn [scan body_len after_body pad_len]. lia. }
  rewrite H. lia.
Qed.

Lemma body_len_nonneg s : Forall wf_item s -> 0 <= body_len s.
Proof.
  induction s as [|i r IH]; intros H; cbn [body_len]; [lia|]. inversion H as [|? ? Hi Hr]; subst.
  destruct i as [len pn|pn|]; try lia. cbn in Hi. destruct pn; [lia|]. specialize (IH Hr). lia.
Qed.

Lemma pad_len_nonneg s : 0 <= pad_len s.
Proof. induction s as [|i r IH]; cbn [pad_len]; [lia|]. destruct i as [len pn|pn|]; try lia. destruct pn; lia. Qed.

(* a function is accepted only if its own instructions plus the padding behind them hold the 13-byte jump; so the
   bytes [0, 13) that Apply writes lie inside [0, body + padding): no byte of the next function's first instruction *)
Theorem accepted_jump_inside s :
  accepts s = true -> jump_len <= body_len s + pad_len (after_body s).
Proof. unfold accepts. rewrite func_size_exact. intros H. apply Z.leb_le in H. exact H. Qed.

Theorem too_short_refused s : body_len s + pad_len (after_body s) < jump_len -> accepts s = false.
Proof. intros H. unfold accepts. rewrite func_size_exact. apply Z.leb_gt. exact H. Qed.

(* an undecodable or pseudo instruction at the entry: size 0, always refused *)
Theorem undecodable_entry_refused r : accepts (IStop :: r) = false.
Proof. reflexivity. Qed.
