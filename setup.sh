#!/bin/sh
# MANIFEST.setup_cmd: build the framework from files on disk only (offline).
set -e
cd "$(dirname "$0")"
export GOFLAGS=-mod=mod GOPROXY=off GOSUMDB=off GOTOOLCHAIN=local
python3 - <<'PY'
import sys, os
sys.path.insert(0, os.path.join(os.getcwd(), "lib"))
import vlib
vlib.ensure_ref()
vlib.run_go2v()
ok, failed, log = vlib.coq_make(["all"], timeout=3000)
print("coq build:", "ok" if ok else "FAILED at %s" % failed)
hx, log2 = vlib.build_hx()
print("harness build:", "ok" if hx else "FAILED\n" + (log2 or ""))
PY
